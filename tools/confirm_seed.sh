#!/bin/bash
# usage: tools/confirm_seed.sh <worktree with patch applied and _seed/> <seed-name> <property>
# Confirms a seeded change in the sub-agent's own scratch worktree (reusing its build output): the full test suite
# passes with the patch, the demo fails with it and passes without it. Then stores it under /verif/seeded/<seed-name>/
# and removes the worktree.
W=$1; name=$2; prop=$3
cd "$W" || exit 2
export CARGO_NET_OFFLINE=true
git diff --quiet -- rsjsonnet-lang rsjsonnet rsjsonnet-front && { echo "worktree has no source change"; exit 2; }
git diff -- rsjsonnet-lang rsjsonnet rsjsonnet-front > /tmp/confirm-$name.diff
cargo test --workspace --offline -j 8 > /tmp/confirm-$name.test.log 2>&1; tests_rc=$?
nfail=$(grep -c "FAILED\|failed;" /tmp/confirm-$name.test.log | head -1)
fails=$(grep -E "test result: FAILED|[1-9][0-9]* failed" /tmp/confirm-$name.test.log | head -3)
bash _seed/demo.sh "$W" > /tmp/confirm-$name.demo-mut.log 2>&1; mut_rc=$?
git apply -R /tmp/confirm-$name.diff || { echo "cannot revert"; exit 2; }
bash _seed/demo.sh "$W" > /tmp/confirm-$name.demo-clean.log 2>&1; clean_rc=$?
echo "RESULT $name clean_demo_rc=$clean_rc tests_rc=$tests_rc mutated_demo_rc=$mut_rc $fails"
if [ $clean_rc -eq 0 ] && [ $tests_rc -eq 0 ] && [ $mut_rc -ne 0 ]; then
  d=/verif/seeded/$name; mkdir -p $d
  cp /tmp/confirm-$name.diff $d/patch.diff; cp _seed/demo.sh $d/demo.sh; cp _seed/notes.md $d/notes.md 2>/dev/null
  python3 - "$name" "$prop" "$clean_rc" "$tests_rc" "$mut_rc" <<'P'
import json,sys,subprocess
name,prop,c,t,m=sys.argv[1:6]
notes=open('/verif/seeded/%s/notes.md'%name).read() if True else ''
base=subprocess.run(['git','-C','/repo','rev-parse','--short','HEAD'],capture_output=True,text=True).stdout.strip()
meta={"property":prop,"origin":"independent sub-agent given only the property text and a scratch worktree of /repo at %s"%base,
 "what_it_breaks_and_needs_to_manifest":notes.strip()[:1500],
 "confirmed_by_me":{"command":"tools/confirm_seed.sh (in the sub-agent's scratch worktree): cargo test --workspace --offline with the patch; bash demo.sh <tree> with the patch; git apply -R; bash demo.sh <tree>",
   "result":"RESULT %s clean_demo_rc=%s tests_rc=%s mutated_demo_rc=%s"%(name,c,t,m),
   "meaning":"demo exits 0 on the clean tree, the full test suite passes with the patch, demo exits non-zero with the patch"},
 "base_commit":base,"detected_by":None}
json.dump(meta,open('/verif/seeded/%s/meta.json'%name,'w'),indent=1)
P
  echo "stored /verif/seeded/$name"
fi
cd /; git -C /repo worktree remove --force "$W"
