#!/usr/bin/env python3
"""Regenerates the harness status table of DESIGN.md section 11.1 from the harness registry and the last
evidence files (evidence/<id>.json for the quick tier; evidence_thorough/<id>.json if present)."""
import json
import os
import re
import sys

sys.path.insert(0, os.path.dirname(os.path.abspath(__file__)))
import vk  # noqa: E402

V = vk.VERIF
BEGIN, END = "<!-- BEGIN STATUS TABLE -->", "<!-- END STATUS TABLE -->"


def main():
    hs = vk.discover()
    last = {}
    for d in ("evidence_thorough", "evidence"):
        dd = os.path.join(V, d)
        if not os.path.isdir(dd):
            continue
        for fn in sorted(os.listdir(dd)):
            ev = json.load(open(os.path.join(dd, fn)))
            for smp in ev["coverage"].get("samples", []):
                name = smp["harness"].split("::")[-1]
                last[name] = (smp["verdict"], smp.get("wall_s"), smp.get("sat_variables"), ev["tier"])
    rows = ["| harness | serves | tier | last verdict | wall s | SAT variables | what it decides |", "|---|---|---|---|---|---|---|"]
    for h in sorted(hs, key=lambda h: (h.props[0], h.id)):
        v = last.get(h.id)
        props = ", ".join(p + (":" + h.prop_tier[p] if p in h.prop_tier else "") for p in h.props)
        rows.append("| `%s` | %s | %s | %s | %s | %s | %s |" % (
            h.id, props, h.tier, v[0] if v else "not run", ("%.0f" % v[1]) if v and v[1] is not None else "", v[2] if v else "",
            ((h.desc[:160] + "…") if len(h.desc) > 160 else h.desc).replace("|", "\\|")))
    p = os.path.join(V, "DESIGN.md")
    s = open(p).read()
    if BEGIN in s:
        s = s[:s.index(BEGIN) + len(BEGIN)] + "\n" + "\n".join(rows) + "\n" + s[s.index(END):]
        open(p, "w").write(s)
    print("\n".join(rows[:5]))


if __name__ == "__main__":
    main()
