#!/bin/bash
# usage: tools/seedsweep.sh [parallel] [seed ...]   runs the quick check of each seed's own property against the seeded tree
par=${1:-2}; shift
seeds="$@"
[ -z "$seeds" ] && seeds=$(ls /verif/seeded)
run_one() {
  s=$1
  prop=$(python3 -c "import json;print(json.load(open('/verif/seeded/$s/meta.json'))['property'])")
  VERIF_JOBS=4 /verif/tools/seedtest.sh $s $prop --tier quick --jobs 4 > /verif/logs/seedsweep/$s.out 2>&1
  echo "$s $prop rc=$? $(grep -c '^VIOLATION' /var/tmp/seedtest/$s-$prop/check.out 2>/dev/null) violations" >> /verif/logs/seedsweep/summary.txt
}
mkdir -p /verif/logs/seedsweep
export -f run_one
echo $seeds | tr ' ' '\n' | xargs -P $par -I{} bash -c 'run_one {}'
