#!/bin/bash
# usage: tools/seedsweep.sh <parallel> [seed ...]   runs the check listed in tools/seedmap.txt against each seeded tree
par=${1:-2}; shift
seeds="$@"
[ -z "$seeds" ] && seeds=$(grep -v '^#' /verif/tools/seedmap.txt | awk '{print $1}')
run_one() {
  s=$1
  line=$(grep "^$s " /verif/tools/seedmap.txt)
  prop=$(echo "$line" | awk '{print $2}')
  extra=$(echo "$line" | cut -d' ' -f3-)
  case "$extra" in *--tier*) tierarg="";; *) tierarg="--tier quick";; esac
  /verif/tools/seedtest.sh $s $prop $tierarg --jobs 5 $extra > /verif/logs/seedsweep/$s.out 2>&1
  echo "$s $prop rc=$? $(grep -c '^VIOLATION' /var/tmp/seedtest/$s-$prop/check.out 2>/dev/null) violations" >> /verif/logs/seedsweep/summary.txt
}
mkdir -p /verif/logs/seedsweep
export -f run_one
echo $seeds | tr ' ' '\n' | xargs -P $par -I{} bash -c 'run_one {}'
