#!/usr/bin/env python3
"""Collects the smallest observed wall time of every harness from all *.out files under /verif/logs and prints,
per property, the quick-tier harnesses with their times and an estimate of the check's wall time with N workers."""
import glob, re, sys, os
sys.path.insert(0, os.path.dirname(os.path.abspath(__file__)))
import vk
N = int(sys.argv[1]) if len(sys.argv) > 1 else 12
best = {}
for f in glob.glob('/verif/logs/**/*.out', recursive=True) + glob.glob('/root/.vp/check/logs_*/*.log'):
    for line in open(f, errors='replace'):
        m = re.match(r"\s+(\w+)\s+(pass|witness-ok|fail|inconclusive|known)\s+([\d.]+)s", line)
        if m:
            name, st, t = m.group(1), m.group(2), float(m.group(3))
            if st in ('pass', 'witness-ok'):
                if name not in best or t < best[name][0]:
                    best[name] = (t, st)
            else:
                best.setdefault(name + '#bad', (t, st))
hs = vk.discover()
props = sorted(set(p for h in hs for p in h.props))
for p in props:
    q = [h for h in hs if p in h.props and vk.eff_tier(h, p) == 'quick']
    times = []
    rows = []
    for h in q:
        b = best.get(h.id)
        t = b[0] if b else None
        times.append(t if t else 600)
        rows.append((t if t else -1, h.id, '' if b else ('NEVER PASSED ' + str(best.get(h.id + '#bad', '')))))
    # greedy schedule longest first
    loads = [0.0] * N
    for t in sorted(times, reverse=True):
        i = loads.index(min(loads)); loads[i] += t
    print("== %s: %d quick harnesses, est wall %.0fs (+~90s build/resolve)" % (p, len(q), max(loads) if loads else 0))
    for t, n, note in sorted(rows, reverse=True):
        print("     %7.0f  %s %s" % (t, n, note))
