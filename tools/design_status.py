#!/usr/bin/env python3
"""Inserts / refreshes the one-paragraph "(build phase)" status note under each `### Cxx` heading of DESIGN.md.
The notes are maintained here so that they can be regenerated after the harness set changes."""
import re
import os

P = os.path.join(os.path.dirname(os.path.dirname(os.path.abspath(__file__))), "DESIGN.md")

NOTES = {
    "C01": "Built: `c01_float_to_int_contracts`, `c01_frexp_contract` (all 2^64 doubles), the UTF-8 decoder and the 1-byte tiling harness of C14, the four span-manager harnesses of C16, `c02_slice_range`, `c06_sum_avg_step_finite`, `c02_binary_addsub`/`_div_gate` in the quick tier; every other harness of every property also serves C01 in the thorough tier (each one decides panic-freedom of the code it calls). Not built: format parser / renderers, base64, the argument-conversion prefixes of `substr`/`makeArray`/`range`/... (time).",
    "C02": "Built: `c02_binary_addsub`, `_mul`, `_div_gate`, `_div` (thorough: the double-precision divider is expensive to bit-blast), `_bitwise`, `_shift` (found F8), `c02_slice_range` (value oracle for lengths <= 2^52). Not built: parameter binding (`check_call_thunk_args`), `do_slice_string` on symbolic strings (time).",
    "C03": "H1 (exactness of `GcContext::gc` on symbolic heaps) was NOT retried: the design-time probes did not decide even two nodes and nothing learnt since removes the cause (`Vec<Rc<dyn ..>>` with `swap_remove`, drop glue of trait objects). H2 (trace completeness) is built: `c03_trace_thunk_and_value`, `c03_trace_env_and_func`, `c03_trace_object` run the real `trace` implementations under the real `GcCountCtx` / `GcMarkCtx` (through two injected one-line wrappers in `gc/mod.rs`) on values whose every handle points to a distinct object and assert visits == 1 and the mark queue length. C03 is claimed at that level only.",
    "C04": "Built: `c04_thunk_state_machine`, `c04_new_thunk_is_lazy` (which also pins the `is_finite` guard on literal thunks, C06). Not built: `do_std_make_array` / `map_with_key` / `check_call_expr_args` creation sites, `DoThunk`/`GotThunk` steps of `run()`.",
    "C05": "Built: the escaper per UTF-8 width class against a reference escaper (`c05_escape_json_w1..w4`, found F4), the reference escaper's RFC 8259 validity and round trip over every scalar value (`c05_ref_escape_valid`), and - through C20 - the crate's JSON lexer against the same RFC reference decoder. `core::fmt` is stubbed, so the harness decides WHICH characters take the `\\\\uXXXX` branch, not the four digits. Field order (`get_fields_order`) is thorough-tier only and was not discharged (section 3). Not built: the YAML / TOML plain-key predicates (triage in section 5).",
    "C06": "Built as designed for the unary and binary math builtins (libm stubbed by an arbitrary double), the sum/avg step (found F3), the binary operators (shared with C02), the JSON number lexer's finiteness gate (`c20_json_number_5`, thorough for C06) and the literal-thunk guard (`c04_new_thunk_is_lazy`). Not built: `lex_number` digit/exponent bookkeeping, `parseInt` (time).",
    "C07": "Built: `c07_lookup_3` (quick, 5-6 min) and `c07_lookup_4` (thorough) for find_field / has_field / has_visible_field against the layer semantics; `c07_extend_layers`, `c07_remove_key`, `c07_object_has_ex` and the four `c07_order_*` templates exist but need 16-40 GB and are thorough-tier attempts, not part of the quick claim. `get_fields_order` turned out to be out of reach (section 3); the defect F7 in it was found by reading while writing the reference semantics.",
    "C08": "Not built. The comparison state machine is inline in `Evaluator::run`; the single-step harness of `run()` the design made it conditional on was not attempted after the build phase showed that merely reaching `execute_call` (and with it every builtin) is what no harness survives. C08 is listed in MANIFEST.not_applicable.",
    "C09": "Built on the template family, which turned out to be well suited (tree shapes concrete, names symbolic): `c09_local_scope`, `c09_function_scope`, `c09_import_path`, `c09_positional_after_named` in the quick tier (70-90 s each); `c09_object_scope`, `c09_comprehension_scope`, `c09_self_outside_object` exist but exceeded 25 min / 14 GB under load and are thorough-tier.",
    "C10": "Not built (same reason as C08: the limit test and the InProgress check are inline in `Evaluator::run`). Listed in MANIFEST.not_applicable.",
    "C14": "Built: `c14_decode_matches_std` (found F1), tiling harnesses `c14_tiling_1` (quick), `_2`, `_3`, `_4` (thorough; `_2` did not finish in 25 min under load). Not built: the literal-value harnesses H3 and the whitespace-dropping harness H4 (time).",
    "C15": "Built: `c15_precedence_two_ops` (19 x 19 operator pairs, tree shape and spans) and `c15_unary_binds_tighter`. Not built: three-operator chains, the parenthesised form, the 12 slice layouts.",
    "C16": "Built: the four span-manager harnesses (round trip inline / interned, encoding decision at the exact bit boundaries, surrounding spans) in 20-40 s each; lexer error spans come with the C14 tiling harnesses. Not built: trace cropping (H4, lives in rsjsonnet-front).",
    "C17": "Built: `c17_sort_slice`, `c17_quick_sort_1`, `c17_quick_sort_2_r04/_r13` (+ three more ranges in the thorough tier; a single harness over a symbolic range ran out of memory because `Vec::with_capacity(len - 1)` then has a symbolic size), `c17_merge_pre_compare`, `c17_merge_post_compare`, `c17_set_inter/union/diff_step`, `c17_set_member_check`, `c17_min_max_check_item`. The set / min-max steps call the key function; `Evaluator::execute_call` is stubbed by its identity arm because the real dispatch makes every builtin reachable. Not built: `sort_finish`, `set_uniq*`, `uniq_*`.",
    "C18": "Only what other families bring: `c02_slice_range` (negative bounds against the character count's contract), `c20_radix_*` (offending character reported as a character), `c19_field_padding_*` (width in characters). The `[char]`-oracle harnesses for substr / findSubstr / strip / split / join were not built (time); C18 is claimed at that reduced level.",
    "C19": "Built: `c19_field_padding_array/_object` (encode F6) and `c19_decorate_digits`; all three need `String::reserve` stubbed to a no-op and `push_str` to per-character `push`, because padding by a symbolic amount otherwise allocates a symbolic size. F5 is not encodable (the panic is inside `core::fmt`). Not built: `parse_format_codes`, the argument state machine, `%c`.",
    "C20": "Built: `c20_radix_hex_value` / `_oct_value` (value and offending character on strings of 0..=5 bytes), `c20_json_number_5` (RFC 8259 number grammar + finiteness, `str::parse::<f64>` stubbed by an arbitrary double), `c20_json_string_2` (quick) / `_3` / `_5` / `_uescape` (thorough) against the RFC reference decoder, `c20_radix_hex_cut` / `_oct_cut` (the F2 shape; thorough, 40 GB). Not built: `parse_json` structure templates, base64, encode/decodeUTF8, escapeString*.",
}


def main():
    s = open(P).read()
    for pid, note in NOTES.items():
        m = re.search(r"^### %s [^\n]*\n" % pid, s, re.M)
        if not m:
            continue
        head_end = m.end()
        # remove an existing build-phase note
        rest = s[head_end:]
        rest = re.sub(r"\A\n\*\(build phase\)\* [^\n]*\n", "\n", rest)
        s = s[:head_end] + "\n*(build phase)* " + note + "\n" + rest
    open(P, "w").write(s)


if __name__ == "__main__":
    main()
