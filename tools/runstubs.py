#!/usr/bin/env python3
"""Generates, from the CURRENT source of rsjsonnet-lang/src/program/eval/*.rs in an overlay, the stub set
that makes a single iteration of the real `Evaluator::run` loop tractable for CBMC (DESIGN.md section 11.4).

`run()` is one big `match` whose arms either contain their logic inline (DoThunk, EqualsValue,
EqualsArray, CompareValue, CompareArray, If, Index, Slice, the trace-length bookkeeping and the frame-limit
test) or delegate to a method (`self.do_std_sort()?`, `self.do_expr(..)?`, `self.execute_call(..)`, ...).
The delegating arms make every builtin, the YAML parser, the manifesters and `core::fmt` reachable from
`run()`. For a harness that drives ONE inline arm, every method that `run()` calls directly is replaced by a
panicking stub ("stubbed-out step reached": reaching one fails the harness loudly instead of silently
narrowing it), except the small helpers the inline arms are made of (KEEP) and whatever the harness's
profile asks to keep real.

Output (appended to program/eval/mod.rs of the overlay, all under cfg(kani)):
  * `impl Evaluator { fn kstub_run_<name>(<same signature>) -> <same> { panic!(..) } }` per stubbed method;
  * one macro per profile: `run_stubs_<profile>! { <harness fn> }` wrapping the item in the `#[kani::stub]`
    attributes.
Profiles are read from `/verif/harness/rsjsonnet-lang/src/program/eval/kani_harness/run_profiles.txt`:
`<profile>: <method to keep real> ...`.
"""
import os
import re

KEEP = {
    # trace-length bookkeeping and thunk forcing helper: part of every inline arm
    "push_trace_item", "delay_trace_item", "inc_trace_len", "dec_trace_len", "want_thunk_direct",
    # replaced by hand-written stubs in the harness module (not panicking ones)
    "report_error",
    # small leaf helpers
    "check_object_asserts", "safe_f64_to_i64", "check_number_value", "get_func_info",
}

RE_IMPL = re.compile(r"^impl<([^>]*)> Evaluator<([^>]*)> \{\s*$", re.M)


def _methods(text):
    """yield (impl_generics, impl_args, name, signature_text_without_body) for every method of an
    `impl<..> Evaluator<..>` block (methods are the `fn` items at 4 spaces of indentation)."""
    for mi in RE_IMPL.finditer(text):
        gen, args = mi.group(1), mi.group(2)
        end = text.find("\n}\n", mi.end())
        block = text[mi.end():end if end >= 0 else len(text)]
        for mf in re.finditer(r"^    (?:#\[[^\]]*\]\s*)*((?:pub(?:\([^)]*\))? )?fn (\w+))", block, re.M):
            start = mf.start(1)
            # scan to the `{` that opens the body: first `{` at paren depth 0 after the parameter list
            depth = 0
            i = mf.end(1)
            seen_params = False
            while i < len(block):
                c = block[i]
                if c in "([":
                    depth += 1
                elif c in ")]":
                    depth -= 1
                    if depth == 0:
                        seen_params = True
                elif c == "{" and depth == 0 and seen_params:
                    break
                i += 1
            sig = block[start:i].rstrip()
            yield gen, args, mf.group(2), sig


def generate(ovl, harness_eval_dir):
    """Returns ({file name in program/eval: code to append}, problems, stubbed method names)."""
    src = os.path.join(ovl, "rsjsonnet-lang", "src", "program", "eval")
    problems = []
    methods = {}
    for fn in sorted(os.listdir(src)):
        if not fn.endswith(".rs"):
            continue
        text = open(os.path.join(src, fn)).read()
        for gen, args, name, sig in _methods(text):
            methods[name] = (gen, args, sig, fn)
    modtext = open(os.path.join(src, "mod.rs")).read()
    m = re.search(r"^    fn run\(&mut self\) -> EvalResult<\(\)> \{\n(.*?)^    \}\n", modtext, re.M | re.S)
    if not m:
        return {}, ["eval/mod.rs: `fn run(&mut self) -> EvalResult<()>` not found (run-step stubs cannot be generated)"], []
    body = m.group(1)
    called = sorted(set(re.findall(r"\bself\s*\.\s*(\w+)\(", body)))
    called = [c for c in called if c in methods]
    profiles = {"all": set()}
    pf = os.path.join(harness_eval_dir, "run_profiles.txt")
    if os.path.exists(pf):
        for line in open(pf):
            line = line.split("#")[0].strip()
            if not line:
                continue
            name, _, keep = line.partition(":")
            profiles[name.strip()] = set(keep.split())
    # the common stub set of every evaluator harness (`eval_stubs!` in the harness module) is repeated inside the
    # generated macros: attributes cannot be passed through a nested macro invocation
    hm = open(os.path.join(harness_eval_dir, "mod.rs")).read()
    me = re.search(r"macro_rules! eval_stubs \{.*?\n((?:\s*#\[kani::stub\([^\n]*\n)+)", hm, re.S)
    common = me.group(1) if me else ""
    if not common:
        problems.append("harness mod.rs: eval_stubs! attribute block not found")
    common += ("        #[kani::stub(crate::program::eval::Evaluator::report_error, crate::program::eval::Evaluator::kstub_report_error)]\n"
               "        #[kani::stub(crate::program::Program::maybe_gc, crate::program::Program::kstub_maybe_gc)]\n")
    stubbed = []
    by_impl = {}
    for name in called:
        if name in KEEP:
            continue
        gen, args, sig, fn = methods[name]
        if "impl " in sig or re.match(r"(?:pub(?:\([^)]*\))? )?fn \w+<", sig):
            continue  # generic method: kept real
        stub_sig = re.sub(r"fn " + name + r"\b", "fn kstub_run_" + name, sig, count=1)
        stub_sig = re.sub(r"^pub(\([^)]*\))? ", "", stub_sig)
        # parameter patterns such as `mut x: T` are fine in a stub; silence unused warnings
        by_impl.setdefault((fn, gen, args), []).append(
            "    #[allow(unused)]\n    pub(in crate::program) %s {\n        panic!(\"run-step harness: stubbed-out step `%s` reached\")\n    }\n" % (stub_sig, name))
        stubbed.append(name)
    header = "\n// ---- generated by /verif/tools/runstubs.py from run()'s current source: %d callees, %d stubbed ----\n" % (len(called), len(stubbed))
    per_file = {}
    for (fn, gen, args), fns in by_impl.items():
        per_file.setdefault(fn, header)
        per_file[fn] += "#[cfg(kani)]\nimpl<%s> Evaluator<%s> {\n%s}\n" % (gen, args, "\n".join(fns))
    out = [header]
    for pname, keep in profiles.items():
        unknown = sorted(k for k in keep if k not in methods)
        if unknown:
            problems.append("run_profiles.txt: profile %s keeps unknown method(s) %s" % (pname, unknown))
        attrs = "".join(
            "        #[kani::stub(crate::program::eval::Evaluator::%s, crate::program::eval::Evaluator::kstub_run_%s)]\n" % (n, n)
            for n in stubbed if n not in keep)
        out.append("#[cfg(kani)]\nmacro_rules! run_stubs_%s {\n    ($item:item) => {\n%s%s        $item\n    };\n}\n#[cfg(kani)]\npub(in crate::program) use run_stubs_%s;\n" % (pname, common, attrs, pname))
    per_file["mod.rs"] = per_file.get("mod.rs", "") + "".join(out)
    return per_file, problems, stubbed


if __name__ == "__main__":
    import sys
    code, problems, stubbed = generate(sys.argv[1], sys.argv[2])
    for k, v in code.items():
        print("=====", k)
        print(v)
    print(problems, len(stubbed), file=sys.stderr)
