#!/usr/bin/env python3
"""Build a scratch overlay of /repo's *current working tree* with the Kani
harness modules of /verif/harness injected (DESIGN.md section 2).

The overlay only ADDS lines:
  * `#[cfg(kani)] mod kani_harness;` (or `mod kani_support;`) appended to the
    parent module file of every directory found under /verif/harness,
  * `#![cfg_attr(kani, recursion_limit = "100000")]` prepended to lib.rs,
  * every `*.inject.rs` file found next to a harness module is appended verbatim
    to the parent module file (verification-only constructors, all `#[cfg(kani)]`).
Nothing is written to /repo.
"""
import os
import shutil
import subprocess
import sys
import tempfile

sys.path.insert(0, os.path.dirname(os.path.abspath(__file__)))

VERIF = os.path.dirname(os.path.dirname(os.path.abspath(__file__)))
REPO = os.environ.get("VERIF_REPO", "/repo")
HARNESS_ROOT = os.environ.get("VERIF_HARNESS_ROOT", os.path.join(VERIF, "harness"))
SCRATCH_BASE = os.environ.get("VERIF_SCRATCH", "/var/tmp")


def _parent_module_file(root, rel_dir):
    """rel_dir: path of a harness module dir relative to the overlay root, e.g.
    rsjsonnet-lang/src/lexer/kani_harness -> rsjsonnet-lang/src/lexer/mod.rs"""
    parent = os.path.dirname(rel_dir)
    if os.path.basename(parent) == "src":
        for cand in ("lib.rs", "main.rs"):
            p = os.path.join(root, parent, cand)
            if os.path.exists(p):
                return p
    p = os.path.join(root, parent, "mod.rs")
    if os.path.exists(p):
        return p
    p = os.path.join(root, parent + ".rs")
    if os.path.exists(p):
        return p
    return None


ALIAS_MAP = "type FHashMap<K, V> = std::collections::HashMap<K, V, foldhash::fast::RandomState>;"
ALIAS_SET = "type FHashSet<T> = std::collections::HashSet<T, foldhash::fast::RandomState>;"
CONTAINER_PRELUDE = """
// ---- injected by /verif/tools/overlay.py: container model (see kani_support/kmap.rs) ----
#[cfg(not(kani))]
type FHashMap<K, V> = std::collections::HashMap<K, V, foldhash::fast::RandomState>;
#[cfg(kani)]
type FHashMap<K, V> = crate::kani_support::kmap::VecMap<K, V>;
#[cfg(not(kani))]
type FHashSet<T> = std::collections::HashSet<T, foldhash::fast::RandomState>;
#[cfg(kani)]
type FHashSet<T> = crate::kani_support::kmap::VecSet<T>;
#[cfg(not(kani))]
pub(crate) use std::collections::hash_map::Entry as KEntry;
#[cfg(kani)]
pub(crate) use crate::kani_support::kmap::Entry as KEntry;
#[cfg(not(kani))]
pub(crate) use std::collections::BTreeMap as KBTreeMap;
#[cfg(kani)]
pub(crate) use crate::kani_support::kmap::KBTreeMap;
#[cfg(not(kani))]
pub(crate) use std::collections::btree_map::Entry as KBTreeEntry;
#[cfg(kani)]
pub(crate) use crate::kani_support::kmap::btree::Entry as KBTreeEntry;
#[cfg(not(kani))]
pub(crate) use hashbrown::HashTable as KHashTable;
#[cfg(kani)]
pub(crate) use crate::kani_support::kmap::KHashTable;
#[cfg(not(kani))]
pub(crate) use hashbrown::hash_table::Entry as KTableEntry;
#[cfg(kani)]
pub(crate) use crate::kani_support::kmap::table::Entry as KTableEntry;
"""


def _apply_container_model(ovl):
    """Re-point the crate's FHashMap/FHashSet aliases, the hash_map::Entry paths and the interner's
    hashbrown::HashTable at the association-list model under cfg(kani). This is the one place where the
    overlay rewrites existing lines (textually, in the scratch copy only)."""
    problems = []
    src = os.path.join(ovl, "rsjsonnet-lang", "src")
    lib = os.path.join(src, "lib.rs")
    text = open(lib).read()
    if ALIAS_MAP not in text or ALIAS_SET not in text:
        problems.append("lib.rs: FHashMap/FHashSet alias lines not found (container model cannot be applied)")
        return problems
    text = text.replace(ALIAS_MAP, "").replace(ALIAS_SET, "") + CONTAINER_PRELUDE
    open(lib, "w").write(text)
    n_entry = 0
    for dirpath, _, filenames in os.walk(src):
        if "kani_" in dirpath:
            continue
        for fn in filenames:
            if not fn.endswith(".rs"):
                continue
            p = os.path.join(dirpath, fn)
            t = open(p).read()
            t2 = t.replace("std::collections::hash_map::Entry", "crate::KEntry")
            if p.endswith(os.path.join("program", "data.rs")):
                if "use std::collections::BTreeMap;" not in t2 or "std::collections::btree_map::Entry" not in t2:
                    problems.append("program/data.rs: BTreeMap usage not found")
                t2 = t2.replace("use std::collections::BTreeMap;", "use crate::KBTreeMap as BTreeMap;")
                t2 = t2.replace("std::collections::btree_map::Entry", "crate::KBTreeEntry")
            if p.endswith(os.path.join("interner", "inner.rs")):
                if "hashbrown::HashTable" not in t2 or "hashbrown::hash_table::Entry" not in t2:
                    problems.append("interner/inner.rs: hashbrown::HashTable usage not found")
                t2 = t2.replace("hashbrown::HashTable", "crate::KHashTable").replace("hashbrown::hash_table::Entry", "crate::KTableEntry")
            if t2 != t:
                n_entry += 1
                open(p, "w").write(t2)
    return problems


def _apply_run_stubs(ovl, harness_root):
    """Append the generated single-step stub set for `Evaluator::run` (tools/runstubs.py) to the eval sources."""
    import runstubs
    hdir = os.path.join(harness_root, "rsjsonnet-lang", "src", "program", "eval", "kani_harness")
    if not os.path.isdir(hdir):
        return []
    per_file, problems, _ = runstubs.generate(ovl, hdir)
    for fn, code in per_file.items():
        with open(os.path.join(ovl, "rsjsonnet-lang", "src", "program", "eval", fn), "a") as f:
            f.write(code)
    return problems


def make_overlay(tag="ovl", harness_root=HARNESS_ROOT, repo=REPO):
    """Returns (overlay_dir, problems). The caller removes overlay_dir."""
    os.makedirs(SCRATCH_BASE, exist_ok=True)
    ovl = tempfile.mkdtemp(prefix="verif-%s-" % tag, dir=SCRATCH_BASE)
    subprocess.run(
        ["rsync", "-a", "--exclude", "/target", "--exclude", "/.git", repo + "/", ovl + "/"],
        check=True,
    )
    problems = []
    injected = []
    for dirpath, dirnames, filenames in os.walk(harness_root):
        base = os.path.basename(dirpath)
        if base not in ("kani_harness", "kani_support"):
            continue
        rel = os.path.relpath(dirpath, harness_root)
        parent_file = _parent_module_file(ovl, rel)
        if parent_file is None:
            problems.append("no parent module file for %s" % rel)
            dirnames[:] = []
            continue
        dst = os.path.join(ovl, rel)
        if os.path.exists(dst):
            shutil.rmtree(dst)
        shutil.copytree(dirpath, dst, ignore=shutil.ignore_patterns("*.inject.rs"))
        with open(parent_file, "a") as f:
            f.write("\n#[cfg(kani)]\nmod %s;\n" % base)
            for fn in sorted(filenames):
                if fn.endswith(".inject.rs"):
                    f.write("\n// ---- injected from /verif: %s ----\n" % fn)
                    f.write(open(os.path.join(dirpath, fn)).read())
        injected.append(rel)
        dirnames[:] = []
    problems += _apply_container_model(ovl)
    problems += _apply_run_stubs(ovl, harness_root)
    for crate in ("rsjsonnet-lang", "rsjsonnet-front"):
        lib = os.path.join(ovl, crate, "src", "lib.rs")
        if os.path.exists(lib):
            src = open(lib).read()
            open(lib, "w").write('#![cfg_attr(kani, recursion_limit = "100000")]\n#![cfg_attr(kani, allow(unexpected_cfgs, dead_code, unused_imports, unreachable_pub))]\n' + src)
    # cargo must not look for a parent workspace, and must stay offline
    os.makedirs(os.path.join(ovl, ".cargo"), exist_ok=True)
    with open(os.path.join(ovl, ".cargo", "config.toml"), "a") as f:
        f.write("\n[net]\noffline = true\n")
    return ovl, problems, injected


def remove_overlay(ovl):
    if ovl and os.path.isdir(ovl) and os.path.basename(ovl).startswith("verif-"):
        shutil.rmtree(ovl, ignore_errors=True)


if __name__ == "__main__":
    o, p, inj = make_overlay(sys.argv[1] if len(sys.argv) > 1 else "manual")
    print(o)
    for x in inj:
        print("injected", x, file=sys.stderr)
    for x in p:
        print("PROBLEM", x, file=sys.stderr)
