#!/usr/bin/env python3
"""Regenerates the seeded-change table of DESIGN.md section 11.3 from seeded/*/meta.json and result-*.txt."""
import glob
import json
import os
import re

V = os.path.dirname(os.path.dirname(os.path.abspath(__file__)))
BEGIN, END = "<!-- BEGIN SEED TABLE -->", "<!-- END SEED TABLE -->"
rows = ["| seed | property | site / what it needs | checks run against it | outcome |", "|---|---|---|---|---|"]
for d in sorted(glob.glob(os.path.join(V, "seeded", "*"))):
    if not os.path.isdir(d):
        continue
    name = os.path.basename(d)
    meta = json.load(open(os.path.join(d, "meta.json")))
    outcomes, ran = [], []
    for rf in sorted(glob.glob(os.path.join(d, "result-*.txt"))):
        t = open(rf).read()
        head = t.split("\n")[0]
        prop = re.search(r"property=(\S+)", head).group(1)
        args = re.search(r"args=(.*?) rc=", head).group(1).strip()
        rc = re.search(r"rc=(\d+)", head).group(1)
        ran.append("`./check %s %s`" % (prop, args))
        fails = re.findall(r"^  (\S+) fail", t, re.M)
        if rc == "1":
            outcomes.append("**caught** (VIOLATION, replayed natively) by " + ", ".join("`%s`" % f for f in fails))
        elif rc == "0":
            outcomes.append("missed by %s (exit 0)" % prop)
        else:
            inc = re.findall(r"^  (\S+) inconclusive", t, re.M)
            outcomes.append("inconclusive (%s)" % ", ".join(inc) if inc else "inconclusive")
    if not ran:
        ran, outcomes = ["-"], [meta.get("detected_by") or "not run: no harness encodes this behaviour (see the per-property notes in section 6)"]
    what = re.sub(r"\s+", " ", meta.get("what_it_breaks_and_needs_to_manifest", "")).replace("|", "/")
    if len(what) > 420:
        what = what[:417] + "..."
    site = meta.get("site", "(see notes.md in the seed directory)")
    rows.append("| `%s` | %s | %s — %s | %s | %s |" % (name, meta["property"], site, what, "<br>".join(ran), "<br>".join(outcomes)))
p = os.path.join(V, "DESIGN.md")
s = open(p).read()
s = s[:s.index(BEGIN) + len(BEGIN)] + "\n" + "\n".join(rows) + "\n" + s[s.index(END):]
open(p, "w").write(s)
print(len(rows) - 2, "seeds")
