#!/usr/bin/env python3
"""Driver for the solver-based checks of /verif (see DESIGN.md).

  ./check <PROPERTY> [--tier quick|thorough] [--only <substr>] [--jobs N] [--keep]
  ./check --replay <path>
  ./check --list [PROPERTY]
  ./check --setup

Deciding step: every harness is one `cargo kani` run (Kani 0.68 -> CBMC 6.11 ->
CaDiCaL) over the real compiled code of an overlay copy of /repo's current
working tree.  Exit codes: 0 held, 1 violation (replayed natively), 2
inconclusive (never printed as a pass, never as a violation).
"""
import argparse
import concurrent.futures as cf
import json
import os
import re
import resource
import shutil
import signal
import subprocess
import sys
import time

sys.path.insert(0, os.path.dirname(os.path.abspath(__file__)))
import overlay as ovl_mod  # noqa: E402

VERIF = ovl_mod.VERIF
HARNESS_ROOT = ovl_mod.HARNESS_ROOT
KNOWN_FILE = os.path.join(VERIF, "known_findings.json")
# overridable for experiments against scratch trees (seeded changes), so that they never touch the committed evidence
EVIDENCE_DIR = os.environ.get("VERIF_EVIDENCE_DIR", os.path.join(VERIF, "evidence"))
REPLAY_DIR = os.environ.get("VERIF_REPLAY_DIR", os.path.join(VERIF, "replays"))
LOG_DIR = os.environ.get("VERIF_LOG_DIR", os.path.join(VERIF, "logs"))
SEED_TARGET = os.path.join(VERIF, ".cache", "ktarget-seed")

DEFAULT_FS = int(os.environ.get("VERIF_FS", "4096") or 0)

ENV = dict(os.environ)
ENV["CARGO_NET_OFFLINE"] = "true"
ENV.pop("RUSTUP_TOOLCHAIN", None)
ENV.pop("RUSTFLAGS", None)


# --------------------------------------------------------------------------
# harness discovery
# --------------------------------------------------------------------------
class Harness:
    def __init__(self):
        self.id = None
        self.props = []
        self.prop_tier = {}
        self.tier = "quick"
        self.cap = 300
        self.mem_gb = 24
        self.expect = "pass"  # pass | fail (vacuity twin)
        self.desc = ""
        self.bound = ""
        self.out = ""
        self.funcs = []
        self.unwindset = []
        self.unwindset_resolved = []
        self.fs = None  # CBMC --max-field-sensitivity-array-size (None = driver default)
        self.file = None
        self.relfile = None
        self.crate = None
        self.modpath = None
        self.unwind = None
        self.stubs_declared = []
        self.assumes = []
        self.covers = []
        self.macro = None

    @property
    def fq(self):
        return "%s::%s" % (self.modpath, self.id)


def _modpath(relfile):
    # rsjsonnet-lang/src/lexer/kani_harness/mod.rs -> lexer::kani_harness
    parts = relfile.split(os.sep)
    i = parts.index("src")
    mods = parts[i + 1:]
    last = mods[-1]
    if last == "mod.rs":
        mods = mods[:-1]
    else:
        mods[-1] = last[:-3]
    return "::".join(mods)


def discover():
    hs = []
    for dirpath, _, filenames in os.walk(HARNESS_ROOT):
        for fn in sorted(filenames):
            if not fn.endswith(".rs") or fn.endswith(".inject.rs"):
                continue
            path = os.path.join(dirpath, fn)
            rel = os.path.relpath(path, HARNESS_ROOT)
            lines = open(path).read().split("\n")
            i = 0
            while i < len(lines):
                m = re.match(r"\s*// @harness (.*)", lines[i])
                if not m:
                    i += 1
                    continue
                h = Harness()
                h.file, h.relfile = path, rel
                h.crate = rel.split(os.sep)[0]
                h.modpath = _modpath(rel)
                for kv in m.group(1).split():
                    k, _, v = kv.partition("=")
                    if k == "id":
                        h.id = v
                    elif k == "props":
                        # `C20,C01:thorough` = serves C20 at the harness's own tier and C01 only in the thorough tier
                        for item in v.split(","):
                            pid, _, ptier = item.partition(":")
                            h.props.append(pid)
                            if ptier:
                                h.prop_tier[pid] = ptier
                    elif k == "tier":
                        h.tier = v
                    elif k == "cap":
                        h.cap = int(v)
                    elif k == "mem":
                        h.mem_gb = int(v)
                    elif k == "expect":
                        h.expect = v
                    elif k == "unwindset":
                        h.unwindset = v.split(",")
                    elif k == "fs":
                        h.fs = int(v)
                i += 1
                while i < len(lines) and re.match(r"\s*// @", lines[i]):
                    m2 = re.match(r"\s*// @(\w+) (.*)", lines[i])
                    if m2:
                        k, v = m2.group(1), m2.group(2).strip()
                        if k == "desc":
                            h.desc += (" " if h.desc else "") + v
                        elif k == "bound":
                            h.bound += (" " if h.bound else "") + v
                        elif k == "out":
                            h.out += (" " if h.out else "") + v
                        elif k == "funcs":
                            h.funcs += [x.strip() for x in v.split(",") if x.strip()]
                    i += 1
                # a harness generated by a macro invocation: `some_macro!(harness_id, ...);`
                mm = re.match(r"\s*(\w+)!\((\w+)\s*[,)]", lines[i]) if i < len(lines) else None
                if mm and mm.group(1) != "eval_stubs":
                    if h.id is None:
                        h.id = mm.group(2)
                    elif h.id != mm.group(2):
                        raise SystemExit("harness id %s does not match macro argument %s in %s" % (h.id, mm.group(2), rel))
                    h.macro = mm.group(1)
                    hs.append(h)
                    i += 1
                    continue
                # attributes and fn line
                while i < len(lines) and not re.match(r"\s*(pub(\(crate\))? )?fn \w+", lines[i]):
                    a = lines[i]
                    mu = re.search(r"kani::unwind\((\d+)\)", a)
                    if mu:
                        h.unwind = int(mu.group(1))
                    ms = re.search(r"kani::stub\(([^,]+),", a)
                    if ms:
                        h.stubs_declared.append(ms.group(1).strip())
                    i += 1
                if i < len(lines):
                    mf = re.match(r"\s*(?:pub(?:\(crate\))? )?fn (\w+)", lines[i])
                    if h.id is None:
                        h.id = mf.group(1)
                    elif h.id != mf.group(1):
                        raise SystemExit("harness id %s does not match fn %s in %s" % (h.id, mf.group(1), rel))
                    # body: until a line that is exactly "}" at the fn's indentation
                    indent = re.match(r"(\s*)", lines[i]).group(1)
                    j = i + 1
                    body = []
                    while j < len(lines) and lines[j] != indent + "}":
                        body.append(lines[j])
                        j += 1
                    text = "\n".join(body)
                    h.assumes = [re.sub(r"\s+", " ", x) for x in re.findall(r"kani::assume\((.*?)\);", text, re.S)]
                    h.covers = re.findall(r'kani::cover!\(.*?"([^"]*)"\s*\)', text, re.S)
                    i = j
                hs.append(h)
    ids = [h.id for h in hs]
    dup = set(x for x in ids if ids.count(x) > 1)
    if dup:
        raise SystemExit("duplicate harness ids: %s" % dup)
    return hs


_TIER_RANK = {"quick": 0, "thorough": 1, "attempt": 2}


def eff_tier(h, prop):
    """tier at which harness h serves property prop: the later of its own tier and the per-property one"""
    a, b = h.tier, h.prop_tier.get(prop, h.tier)
    return a if _TIER_RANK.get(a, 0) >= _TIER_RANK.get(b, 0) else b


def select(hs, prop, tier, only=None):
    sel = []
    for h in hs:
        if prop not in h.props:
            continue
        t = eff_tier(h, prop)
        # tiers: quick (every change, < 900 s per property) < thorough (known to be decided within its cap) < attempt
        # (written and compiled, but never decided by CBMC within the caps tried: run only with --tier attempt, never
        # by a registered command, because "no verdict" is exit 2)
        if tier == "quick" and t != "quick":
            continue
        if tier == "thorough" and t == "attempt":
            continue
        if only and not any(o in h.id for o in only.split(",")):
            continue
        sel.append(h)
    return sel


# --------------------------------------------------------------------------
# running kani
# --------------------------------------------------------------------------
def _limits(mem_gb):
    def f():
        os.setsid()
        lim = mem_gb * (1 << 30)
        resource.setrlimit(resource.RLIMIT_AS, (lim, lim))
    return f


def run_cmd(cmd, cwd, log, cap, mem_gb=None, env=None):
    t0 = time.time()
    with open(log, "w") as lf:
        p = subprocess.Popen(cmd, cwd=cwd, stdout=lf, stderr=subprocess.STDOUT, env=env or ENV,
                             preexec_fn=_limits(mem_gb) if mem_gb else os.setsid)
        try:
            rc = p.wait(timeout=cap)
            timed_out = False
        except subprocess.TimeoutExpired:
            timed_out = True
            try:
                os.killpg(p.pid, signal.SIGKILL)
            except ProcessLookupError:
                pass
            p.wait()
            rc = -9
    return rc, timed_out, time.time() - t0


def kani_cmd(h, tdir, playback=False, extra=(), extra_cbmc=()):
    # --no-overflow-checks: drops CBMC's --nan-check (a NaN produced by float arithmetic is not a Rust panic; the
    # harnesses assert finiteness themselves). Rust's own overflow / division panics are MIR assertions and stay.
    cmd = ["cargo", "kani", "-p", h.crate, "-Z", "stubbing", "-Z", "unstable-options", "--no-overflow-checks",
           "--target-dir", tdir, "--harness", h.fq, "--exact"]
    if playback:
        cmd += ["-Z", "concrete-playback", "--concrete-playback=print"]
    cmd += list(extra)
    cbmc_args = []
    fs = h.fs if h.fs is not None else DEFAULT_FS
    if fs:
        # CBMC keeps arrays up to this many elements field-sensitive (default 64). Heap buffers (Vec, String, Box) are
        # byte arrays to CBMC; above the limit a value written to one and read back is no longer a constant for the
        # symbolic executor (e.g. the variant of a `State` popped from `state_stack`), so every match arm and all drop
        # glue behind it is explored. This is a performance setting of the symbolic executor, not an abstraction.
        cbmc_args += ["--max-field-sensitivity-array-size", str(fs)]
    if h.unwindset_resolved:
        cbmc_args += ["--unwindset", ",".join(h.unwindset_resolved)]
    cbmc_args += list(extra_cbmc)
    if cbmc_args:
        cmd += ["--cbmc-args"] + cbmc_args
    return cmd


RE_SUMMARY = re.compile(r"\*\* (\d+) of (\d+) failed(?: \((.*?)\))?")
RE_COVER = re.compile(r"\*\* (\d+) of (\d+) cover properties satisfied")
RE_CHECK = re.compile(r"^Check (\d+): (.+)\n\t - Status: (\w+)\n\t - Description: \"(.*)\"\n\t - Location: (.*)$", re.M)


def parse_log(text):
    r = {
        "verdict": None, "checks_total": 0, "checks_failed": 0, "unreachable": 0, "undetermined": 0,
        "covers_total": 0, "covers_sat": 0, "failed": [], "unwind_failed": [], "covers": {},
        "stubs": [], "sat_vars": 0, "sat_clauses": 0, "solver_s": 0.0, "symex_s": 0.0,
        "decision_s": 0.0, "verif_s": None, "compile_error": False, "cbmc_error": False, "unsupported": [],
    }
    if re.search(r"^error(\[E\d+\])?:", text, re.M) and "Checking harness" not in text:
        r["compile_error"] = True
    m = RE_SUMMARY.search(text)
    if m:
        r["checks_failed"], r["checks_total"] = int(m.group(1)), int(m.group(2))
        extra = m.group(3) or ""
        mu = re.search(r"(\d+) unreachable", extra)
        if mu:
            r["unreachable"] = int(mu.group(1))
        mu = re.search(r"(\d+) undetermined", extra)
        if mu:
            r["undetermined"] = int(mu.group(1))
    m = RE_COVER.search(text)
    if m:
        r["covers_sat"], r["covers_total"] = int(m.group(1)), int(m.group(2))
    for m in RE_CHECK.finditer(text):
        name, status, desc, loc = m.group(2), m.group(3), m.group(4), m.group(5)
        if len(desc) >= 2 and desc.startswith('"') and desc.endswith('"'):
            desc = desc[1:-1]
        if ".cover." in name or name.endswith(".cover") or re.search(r"\.cover\.\d+$", name):
            r["covers"][desc] = status
            continue
        if status in ("FAILURE", "UNDETERMINED"):
            entry = {"check": name, "status": status, "description": desc, "location": loc.strip()}
            if "unwinding assertion" in desc or ".unwind." in name or "recursion unwinding" in desc:
                r["unwind_failed"].append(entry)
            elif status == "FAILURE":
                r["failed"].append(entry)
    r["stubs"] = [re.sub(r"\s+", "", s) for s in re.findall(r"- Stub: (.*)", text)]
    mm = re.findall(r"(\d+) variables, (\d+) clauses", text)
    if mm:
        r["sat_vars"] = max(int(a) for a, _ in mm)
        r["sat_clauses"] = max(int(b) for _, b in mm)
    r["solver_s"] = round(sum(float(x) for x in re.findall(r"Runtime Solver: ([\d.e+-]+)s", text)), 3)
    r["symex_s"] = round(sum(float(x) for x in re.findall(r"Runtime Symex: ([\d.e+-]+)s", text)), 3)
    r["decision_s"] = round(sum(float(x) for x in re.findall(r"Runtime decision procedure: ([\d.e+-]+)s", text)), 3)
    m = re.search(r"Verification Time: ([\d.]+)s", text)
    if m:
        r["verif_s"] = float(m.group(1))
    if "VERIFICATION:- SUCCESSFUL" in text:
        r["verdict"] = "SUCCESSFUL"
    elif "VERIFICATION:- FAILED" in text:
        r["verdict"] = "FAILED"
    if re.search(r"CBMC failed|Status: ERROR|out of memory|std::bad_alloc|SIGKILL|signal: 9", text):
        r["cbmc_error"] = True
    r["unsupported"] = sorted(set(re.findall(r"is not currently supported by Kani|unsupported construct", text)))
    return r


_UNWINDSET_CACHE = {}


def resolve_unwindset(h, ovl, tdir, logdir):
    """`unwindset=escape_string_json.0:3,...`: per-loop bounds given by a substring of the (pretty) function name, the
    loop number and the bound. CBMC's loop ids are mangled names, so they are looked up in the harness's GOTO binary
    (`cbmc --show-loops`) after a codegen-only build. Returns (list of `id:n`, problem or None)."""
    import glob
    # loop ids are mangled names of functions of the crate under test: identical for every harness of one overlay build
    key = tuple(h.unwindset)
    if key in _UNWINDSET_CACHE:
        return _UNWINDSET_CACHE[key], None
    log = os.path.join(logdir, h.id + ".codegen.log")
    base = [c for c in kani_cmd(h, tdir) if True]
    # strip a previously resolved --cbmc-args tail (there is none at this point: h.unwindset_resolved is empty)
    rc, to, _ = run_cmd(kani_cmd(h, tdir, extra=["--only-codegen"]), ovl, log, 1800)
    if rc != 0:
        return [], "codegen failed (see %s)" % log
    cands = [f for f in glob.glob(os.path.join(tdir, "**", "out", "*%s.out" % h.id), recursive=True) if not f.endswith(".symtab.out")]
    if not cands:
        return [], "GOTO binary of the harness not found"
    gb = max(cands, key=os.path.getmtime)
    p = subprocess.run(["cbmc", "--show-loops", gb], capture_output=True, text=True, timeout=600)
    loops3 = re.findall(r"^Loop (\S+):\n\s+file .*? line (\d+) .*?function (.*)$", p.stdout, re.M)
    loops = [(lid, func) for lid, _, func in loops3]
    out = []
    for pat in h.unwindset:
        # `<fn>@first:<n>`: the loop of the matching function with the smallest source line (its outermost loop when the
        # function starts with it), independent of CBMC's loop numbering, which shifts when loops are added or removed
        mf = re.match(r"(.+)@first:(\d+)$", pat)
        if mf:
            cands = [(int(line), lid) for lid, line, func in loops3 if mf.group(1) in func or mf.group(1) in lid.rsplit(".", 1)[0]]
            if not cands:
                return [], "unwindset: no loop of %s in the GOTO program" % mf.group(1)
            out.append("%s:%s" % (min(cands)[1], mf.group(2)))
            continue
        ma = re.match(r"(.+)@all:(\d+)$", pat)
        if ma:
            # every loop of the matching function(s)
            hits = [lid for lid, line, func in loops3 if ma.group(1) in func or ma.group(1) in lid.rsplit(".", 1)[0]]
            if not hits:
                return [], "unwindset: no loop of %s in the GOTO program" % ma.group(1)
            out += ["%s:%s" % (lid, ma.group(2)) for lid in hits]
            continue
        m = re.match(r"(.+)\.(\d+):(\d+)$", pat)
        if not m:
            return [], "bad unwindset entry %r" % pat
        fn_pat, idx, n = m.group(1), m.group(2), m.group(3)
        hits = [lid for lid, func in loops if lid.endswith("." + idx) and (fn_pat in func or fn_pat in lid)]
        if not hits:
            return [], "unwindset: no loop %s.%s in the GOTO program" % (fn_pat, idx)
        out += ["%s:%s" % (lid, n) for lid in hits]
    if all("@first:" in pat for pat in h.unwindset):
        _UNWINDSET_CACHE[key] = out
    return out, None


def run_harness(h, ovl, tdir, logdir, playback=False, cap_mult=1.0, extra_cbmc=(), tag=""):
    log = os.path.join(logdir, h.id + (".playback" if playback else "") + tag + ".log")
    if h.unwindset and not h.unwindset_resolved:
        resolved, problem = resolve_unwindset(h, ovl, tdir, logdir)
        if problem:
            r = parse_log("")
            r.update({"id": h.id, "rc": -1, "timed_out": False, "wall_s": 0.0, "log": log, "setup_problem": problem})
            return r, ""
        h.unwindset_resolved = resolved
    # the concrete-playback run keeps the whole trace and needs more memory than the deciding run
    mem = max(h.mem_gb, 56) if playback else h.mem_gb
    rc, timed_out, wall = run_cmd(kani_cmd(h, tdir, playback, extra_cbmc=extra_cbmc), ovl, log, h.cap * cap_mult, mem)
    text = open(log, errors="replace").read()
    r = parse_log(text)
    r.update({"id": h.id, "rc": rc, "timed_out": timed_out, "wall_s": round(wall, 2), "log": log})
    return r, text


def classify(h, r):
    """-> (status, reason): pass | fail | inconclusive"""
    if r.get("setup_problem"):
        return "inconclusive", r["setup_problem"]
    if r["timed_out"]:
        return "inconclusive", "timeout after %ds (cap)" % h.cap
    if r["compile_error"] or r["verdict"] is None:
        return "inconclusive", "overlay did not compile or kani produced no verdict (rc=%s), see %s" % (r["rc"], r["log"])
    if r["unwind_failed"]:
        return "inconclusive", "unwinding assertion failed (bound too small): %s" % r["unwind_failed"][0]["location"]
    if any("kmap model capacity exceeded" in x["description"] for x in r["failed"]):
        return "inconclusive", "container model capacity exceeded (bound too small)"
    if r["verdict"] == "FAILED" and not r["failed"]:
        if r["cbmc_error"]:
            return "inconclusive", "CBMC error / out of memory"
        if r["undetermined"]:
            return "inconclusive", "undetermined checks"
        if r["covers_total"] != r["covers_sat"]:
            # kani reports FAILED?? no: unsatisfied covers do not fail verification
            pass
        return "inconclusive", "FAILED without an identifiable failed check, see %s" % r["log"]
    if r["verdict"] == "FAILED":
        return "fail", "; ".join(sorted(set(x["description"] for x in r["failed"])))
    # SUCCESSFUL
    if r["covers_total"] != r["covers_sat"]:
        unsat = [d for d, s in r["covers"].items() if s != "SATISFIED"]
        return "inconclusive", "vacuity: cover point(s) not satisfied: %s" % unsat
    if r["undetermined"]:
        return "inconclusive", "undetermined checks"
    return "pass", ""


# --------------------------------------------------------------------------
# known findings
# --------------------------------------------------------------------------
def load_known():
    if not os.path.exists(KNOWN_FILE):
        return []
    return json.load(open(KNOWN_FILE)).get("findings", [])


def known_match(known, prop, h, failed_descs):
    """All failed checks of this harness must be listed as *known* (not fixed) findings."""
    hits = []
    for d in failed_descs:
        k = [e for e in known if e.get("status") == "known" and e.get("harness") == h.id
             and e.get("check") == d and prop in e.get("properties", [e.get("property")])]
        if not k:
            return None
        hits += k
    return hits


# --------------------------------------------------------------------------
# replay
# --------------------------------------------------------------------------
RE_TEST = re.compile(
    r"Concrete playback unit test for `([^`]+)`:\n```\n(.*?)\n```", re.S)


def extract_playback_tests(text):
    out = []
    for m in RE_TEST.finditer(text):
        body = m.group(2)
        kind = re.search(r"/// Check for `(\w+)`: (.*)", body)
        name = re.search(r"fn (kani_concrete_playback_\w+)\(", body)
        vals = re.findall(r"^\s*// (.*)\n\s*vec!\[([^\]]*)\]", body, re.M)
        out.append({
            "harness": m.group(1),
            "check_kind": kind.group(1) if kind else "",
            "check_desc": kind.group(2).strip().strip('"') if kind else "",
            "test_name": name.group(1) if name else None,
            "source": body,
            "values": [{"pretty": a.strip(), "bytes": [int(x) for x in b.replace(" ", "").split(",") if x]} for a, b in vals],
        })
    return out


def native_playback(ovl, h, test, logdir, tag=""):
    """Append the generated unit test to the harness file inside the overlay and run it natively."""
    dst = os.path.join(ovl, h.relfile)
    src = open(dst).read()
    if test["test_name"] not in src:
        code = "\n".join(l for l in test["source"].split("\n") if not l.startswith("///"))
        open(dst, "a").write("\n" + code + "\n")
    log = os.path.join(logdir, "%s.native%s.log" % (h.id, tag))
    cmd = ["cargo", "kani", "playback", "-p", h.crate, "-Z", "concrete-playback", "--",
           test["test_name"], "--exact", "--nocapture"]
    # `--exact` of libtest needs the full path
    cmd[-3] = "%s::%s" % (h.modpath, test["test_name"])
    rc, to, wall = run_cmd(cmd, ovl, log, 1200)
    text = open(log, errors="replace").read()
    ran = re.search(r"test result: (\w+)\. (\d+) passed; (\d+) failed", text)
    reproduced = bool(ran and int(ran.group(3)) >= 1)
    ran_ok = bool(ran and int(ran.group(2)) + int(ran.group(3)) >= 1)
    panic = re.search(r"panicked at ([^\n]*)\n([^\n]*)", text)
    repro_lines = re.findall(r"^REPRO[^\n]*", text, re.M)
    return {"reproduced": reproduced, "test_ran": ran_ok, "timed_out": to, "wall_s": round(wall, 1),
            "panic": (panic.group(1) + " | " + panic.group(2)) if panic else None,
            "repro_lines": repro_lines, "log": log}


def cli_observe(ovl, jsonnet_src, logdir, tag):
    """Run a Jsonnet reproducer through the real CLI built from the overlay (dev profile)."""
    log = os.path.join(logdir, "cli-build.log")
    rc, to, _ = run_cmd(["cargo", "build", "--offline", "-p", "rsjsonnet"], ovl, log, 1200)
    exe = os.path.join(ovl, "target", "debug", "rsjsonnet")
    if rc != 0 or not os.path.exists(exe):
        return {"built": False}
    p = subprocess.run([exe, "-e", jsonnet_src], capture_output=True, timeout=60)
    return {"built": True, "program": jsonnet_src, "exit": p.returncode,
            "stdout": p.stdout.decode("utf-8", "replace")[:2000], "stderr": p.stderr.decode("utf-8", "replace")[:2000]}


def failed_property_ids(h, ovl, r):
    """CBMC property ids (mangled) of the failed checks of result r, from `cbmc --show-properties` on the GOTO binary."""
    import glob
    # every worker has its own target directory (ktarget, ktarget-1, ...) inside the overlay
    cands = [f for f in glob.glob(os.path.join(ovl, "ktarget*", "**", "out", "*%s.out" % h.id), recursive=True) if not f.endswith(".symtab.out")]
    if not cands:
        return []
    gb = max(cands, key=os.path.getmtime)
    try:
        p = subprocess.run(["cbmc", "--show-properties", gb], capture_output=True, text=True, timeout=900)
    except Exception:  # noqa
        return []
    # property names of generic functions contain spaces (`f::<2, 0>.assertion.3`)
    props = re.findall(r"^Property ([^\n]+):\n\s+file (\S+) line (\d+)[^\n]*\n\s+(.*)$", p.stdout, re.M)
    out = []
    for f in r["failed"]:
        desc = f["description"]
        ml = re.search(r":(\d+):\d+ in function", f["location"])
        line = ml.group(1) if ml else None
        for pid, pfile, pline, pdesc in props:
            pd = pdesc.strip().strip('"')
            if (pd == desc or pd == '"%s"' % desc or desc in pd) and (line is None or pline == line):
                if pid not in out:
                    out.append(pid)
    return out


def replay_phase1(h, ovl, tdir, logdir, r):
    """Kani's concrete-playback re-run(s) of a failed harness; returns (tests, log of the last run). Safe to run in the
    worker pool next to other harnesses (it only needs a target directory of its own)."""
    heavy = r.get("sat_vars", 0) > 1500000
    all_tests = []
    pr = {"log": ""}
    if not heavy:
        pr, ptext = run_harness(h, ovl, tdir, logdir, playback=True, cap_mult=4.0)
        all_tests = [t for t in extract_playback_tests(ptext) if t["test_name"]]
    if not all_tests:
        # The playback run checks ALL properties of the harness with traces kept and can need several times the memory of
        # the deciding run (c05_escape_json_w1: > 56 GB). Second attempt: the same run restricted to the failed properties
        # (`cbmc --property <id>`), whose ids are looked up in the harness's GOTO binary.
        ids = failed_property_ids(h, ovl, r)
        if ids:
            # Kani drops `--slice-formula` for concrete playback (a sliced formula may leave inputs the failure does not
            # depend on out of the trace); without it this harness's formula needs > 56 GB. It is put back for the
            # restricted attempt: an input that is sliced away is one the failed assertion does not depend on, and the
            # native run decides in the end whether the values printed reproduce the failure.
            extra = ["--slice-formula"]
            for i in ids[:4]:
                extra += ["--property", i]
            pr, ptext = run_harness(h, ovl, tdir, logdir, playback=True, cap_mult=4.0, extra_cbmc=extra, tag=".restricted")
            all_tests = [t for t in extract_playback_tests(ptext) if t["test_name"]]
        if not all_tests and heavy:
            pr, ptext = run_harness(h, ovl, tdir, logdir, playback=True, cap_mult=4.0)
            all_tests = [t for t in extract_playback_tests(ptext) if t["test_name"]]
    tests = [t for t in all_tests if t["check_kind"] != "cover"]
    if not tests:
        # Kani prints one unit test per DISTINCT vector of concrete values; when the failing path reads no symbolic value
        # (or the same values as a cover witness) only the cover's test is printed. Running the harness natively on those
        # values is the replay all the same: the native test fails iff the harness's assertion fails on them.
        tests = all_tests
    return tests, pr["log"]


def replay_phase2(h, prop, ovl, logdir, r, tests, prlog):
    """Runs the playback tests natively (serial: it edits the harness file inside the overlay) and writes the replay file."""
    info = {"property": prop, "harness": h.id, "harness_file": h.relfile, "crate": h.crate, "modpath": h.modpath,
            "failed_checks": r["failed"], "desc": h.desc, "bound": h.bound, "tests": [], "created": time.strftime("%Y-%m-%dT%H:%M:%S")}
    reproduced = False
    for k, t in enumerate(tests[:3]):
        nat = native_playback(ovl, h, t, logdir, tag=".%d" % k)
        t2 = dict(t)
        t2["native"] = nat
        for line in nat["repro_lines"]:
            mj = re.match(r"REPRO-JSONNET: (.*)", line)
            if mj:
                try:
                    prog = bytes.fromhex(mj.group(1)).decode("utf-8", "surrogateescape")
                    t2["cli"] = cli_observe(ovl, prog, logdir, k)
                except Exception as e:  # noqa
                    t2["cli"] = {"error": str(e)}
        info["tests"].append(t2)
        reproduced = reproduced or nat["reproduced"]
    info["reproduced_natively"] = reproduced
    if not tests:
        info["note"] = "kani produced no concrete playback test (timeout or unsupported); see log %s" % prlog
    os.makedirs(os.path.join(REPLAY_DIR, prop), exist_ok=True)
    path = os.path.join(REPLAY_DIR, prop, h.id + ".json")
    json.dump(info, open(path, "w"), indent=1)
    return path, reproduced, info


def do_replay_for_failure(h, prop, ovl, tdir, logdir, r):
    """Both phases in a row; returns (replay_path, reproduced, info)."""
    tests, prlog = replay_phase1(h, ovl, tdir, logdir, r)
    return replay_phase2(h, prop, ovl, logdir, r, tests, prlog)


def cmd_replay(path):
    info = json.load(open(path))
    hs = {h.id: h for h in discover()}
    h = hs.get(info["harness"])
    if h is None:
        print("replay: harness %s no longer exists" % info["harness"])
        return 2
    ovl, problems, _ = ovl_mod.make_overlay("replay")
    logdir = os.path.join(LOG_DIR, "replay")
    os.makedirs(logdir, exist_ok=True)
    try:
        any_rep = False
        for k, t in enumerate(info["tests"]):
            nat = native_playback(ovl, h, t, logdir, tag=".r%d" % k)
            print("replay %s test %s: %s%s" % (h.id, t["test_name"], "REPRODUCED" if nat["reproduced"] else
                                              ("not reproduced" if nat["test_ran"] else "did not run"),
                                              (" (" + nat["panic"] + ")") if nat["panic"] else ""))
            print("  concrete values: " + ", ".join(v["pretty"] for v in t["values"]))
            any_rep = any_rep or nat["reproduced"]
        return 1 if any_rep else 0
    finally:
        ovl_mod.remove_overlay(ovl)


# --------------------------------------------------------------------------
# main check
# --------------------------------------------------------------------------
def prepare_target(ovl):
    tdir = os.path.join(ovl, "ktarget")
    if os.path.isdir(SEED_TARGET):
        subprocess.run(["cp", "-a", SEED_TARGET, tdir], check=False)
    return tdir


def cmd_setup():
    """Pre-build the Kani artefacts of the dependencies once (optional cache)."""
    ovl, problems, _ = ovl_mod.make_overlay("setup")
    try:
        hs = discover()
        if not hs:
            return 0
        os.makedirs(os.path.dirname(SEED_TARGET), exist_ok=True)
        tdir = os.path.join(ovl, "ktarget")
        logdir = os.path.join(LOG_DIR, "setup")
        os.makedirs(logdir, exist_ok=True)
        h = sorted(hs, key=lambda x: x.cap)[0]
        cmd = kani_cmd(h, tdir, extra=["--only-codegen"])
        rc, to, wall = run_cmd(cmd, ovl, os.path.join(logdir, "seed.log"), 1800)
        print("setup: seed build rc=%s in %.0fs" % (rc, wall))
        if rc == 0:
            # keep only dependency artefacts: drop the crate's own outputs
            for root, dirs, files in os.walk(tdir):
                for d in list(dirs):
                    if d.startswith("rsjsonnet"):
                        shutil.rmtree(os.path.join(root, d), ignore_errors=True)
                        dirs.remove(d)
            if os.path.isdir(SEED_TARGET):
                shutil.rmtree(SEED_TARGET)
            shutil.move(tdir, SEED_TARGET)
        return 0
    finally:
        ovl_mod.remove_overlay(ovl)


def write_evidence(prop, tier, seed, results, hs_by_id, wall, violations, known_lines, inconclusive, engine_note):
    os.makedirs(EVIDENCE_DIR, exist_ok=True)
    decided = [r for r in results if r["status"] in ("pass", "fail", "known", "witness-ok")]
    nontrivial = [r for r in results if r["status"] == "pass" and r["covers_total"] >= 1 and r["covers_total"] == r["covers_sat"]]
    samples = []
    for r in results:
        h = hs_by_id[r["id"]]
        s = {"harness": h.fq, "statement": h.desc, "bound": h.bound, "unwind": h.unwind, "verdict": r["status"],
             "cbmc_checks": r["checks_total"], "cover_points_satisfied": ["%s" % d for d, st in r["covers"].items() if st == "SATISFIED"],
             "sat_variables": r["sat_vars"], "sat_clauses": r["sat_clauses"], "solver_s": r["solver_s"], "wall_s": r["wall_s"]}
        if r.get("reason"):
            s["reason"] = r["reason"]
        if r.get("counterexample"):
            s["counterexample"] = r["counterexample"]
        samples.append(s)
    funcs = sorted(set(f for r in results for f in hs_by_id[r["id"]].funcs))
    stubs = sorted(set(s for r in results for s in r["stubs"]))
    assumes = sorted(set("%s: assume(%s)" % (r["id"], a) for r in results for a in hs_by_id[r["id"]].assumes))
    outs = sorted(set(hs_by_id[r["id"]].out for r in results if hs_by_id[r["id"]].out))
    ev = {
        "property_id": prop, "tier": tier, "seed": seed, "level": "model_checking",
        "coverage": {
            "evaluations": len(decided),
            "distinct_nontrivial": len(nontrivial),
            "rule": "one evaluation = one solver query (Kani/CBMC/CaDiCaL) that decided a harness over its whole symbolic input "
                    "domain within the stated bound; non-trivial = verdict SUCCESSFUL with every kani::cover! point of the harness "
                    "SATISFIED (reachability of each outcome class shown by the solver); vacuity twins (expect=fail) are counted in "
                    "evaluations only",
            "samples": samples,
            "exhaustive": False,
            "engine": engine_note,
            "functions_encoded": funcs,
            "harnesses_run": len(results),
            "harnesses_inconclusive": len(inconclusive),
            "cbmc_checks_discharged": sum(r["checks_total"] - r["checks_failed"] for r in results if r["status"] in ("pass", "witness-ok")),
            "sat_variables_total": sum(r["sat_vars"] for r in results),
            "sat_clauses_total": sum(r["sat_clauses"] for r in results),
            "solver_seconds": round(sum(r["solver_s"] for r in results), 2),
            "symex_seconds": round(sum(r["symex_s"] for r in results), 2),
            "stubs": stubs,
            "outside_claim": outs,
            "known_findings_reported": known_lines,
        },
        "assumptions": ["bounded: each verdict holds only inside the bound listed with the harness (Kani unwinding assertions on)",
                        "Kani/CBMC model of the Rust standard library and of IEEE-754 (transcendental libm functions are over-approximated by unconstrained doubles)",
                        "dev profile semantics (overflow checks on), the profile Kani models"] + ["stub: " + s for s in stubs] + assumes,
        "wall_s": round(wall, 1),
        "violations": violations,
    }
    json.dump(ev, open(os.path.join(EVIDENCE_DIR, prop + ".json"), "w"), indent=1)


def cmd_check(prop, tier, only, jobs, keep):
    t0 = time.time()
    seed = int(os.environ.get("VERIF_SEED", "0") or 0)
    hs = discover()
    sel = select(hs, prop, tier, only)
    if not sel:
        print("no harness registered for %s (tier %s)" % (prop, tier))
        return 2
    hs_by_id = {h.id: h for h in hs}
    known = load_known()
    logdir = os.path.join(LOG_DIR, "%s-%s%s" % (prop, tier, ("-" + only) if only else ""))
    shutil.rmtree(logdir, ignore_errors=True)
    os.makedirs(logdir, exist_ok=True)
    ovl, problems, injected = ovl_mod.make_overlay(prop)
    results, inconclusive, violations, known_lines = [], [], [], []
    try:
        if problems:
            print("INCONCLUSIVE %s: overlay problems: %s" % (prop, problems))
            return 2
        tdir = prepare_target(ovl)
        # warm-up: build dependencies once (serial) with the cheapest harness
        first = sorted(sel, key=lambda h: h.cap)[0]
        rc, to, wall = run_cmd(kani_cmd(first, tdir, extra=["--only-codegen"]), ovl, os.path.join(logdir, "_build.log"), 1800)
        if rc != 0:
            txt = open(os.path.join(logdir, "_build.log"), errors="replace").read()
            errs = re.findall(r"^error.*(?:\n .*){0,6}", txt, re.M)[:5]
            print("INCONCLUSIVE %s: the overlay of /repo's working tree does not compile under Kani (rc=%s); first errors:" % (prop, rc))
            for e in errs:
                print("  " + e.replace("\n", "\n  "))
            print("  full log: %s" % os.path.join(logdir, "_build.log"))
            write_evidence(prop, tier, seed, [], hs_by_id, time.time() - t0, 0, [], ["build"], "cargo-kani 0.68.0 / CBMC 6.11.0 / CaDiCaL")
            return 2
        print("[%s/%s] overlay built in %.0fs; %d harness(es), %d parallel" % (prop, tier, wall, len(sel), jobs))
        sys.stdout.flush()
        # per-loop bounds: resolve each distinct unwindset once, serially (codegen + cbmc --show-loops), before the pool
        seen = set()
        for h in sel:
            key = tuple(h.unwindset)
            if h.unwindset and key not in seen and all("@first:" in pat for pat in h.unwindset):
                seen.add(key)
                resolved, problem = resolve_unwindset(h, ovl, tdir, logdir)
                if not problem:
                    h.unwindset_resolved = resolved
        order = sorted(sel, key=lambda h: -h.cap)
        # one target dir per worker (copies of the warmed-up one): concurrent `cargo kani` invocations would
        # otherwise serialise on cargo's build-directory lock while each compiles its own harness
        import queue
        nworkers = max(1, min(jobs, len(order)))
        tdirs = queue.Queue()
        tdirs.put(tdir)
        for k in range(1, nworkers):
            tk = "%s-%d" % (tdir, k)
            subprocess.run(["cp", "-a", tdir, tk], check=False)
            tdirs.put(tk)

        def job(h):
            t = tdirs.get()
            try:
                return run_harness(h, ovl, t, logdir)
            finally:
                tdirs.put(t)

        phase1 = {}
        with cf.ThreadPoolExecutor(max_workers=nworkers) as ex:
            futs = {ex.submit(job, h): h for h in order}
            for fut in cf.as_completed(futs):
                h = futs[fut]
                r, text = fut.result()
                status, reason = classify(h, r)
                if h.expect == "fail":
                    # vacuity twin: must come back FAILED on its final witness assertion only
                    # the twin repeats the main harness's body: if the tree under test breaks the property it may fail the
                    # shared assertion as well; that violation is reported (and replayed) through the main harness
                    if status == "fail" and any("reachability witness" in x["description"] for x in r["failed"]):
                        status, reason = "witness-ok", ""
                    elif status == "pass":
                        status, reason = "inconclusive", "vacuity twin passed: the harness never reaches its final assertion"
                    elif status == "fail":
                        status, reason = "fail", reason
                r["status"], r["reason"] = status, reason
                results.append(r)
                if status == "fail" and h.expect != "fail":
                    descs0 = sorted(set(x["description"] for x in r["failed"]))
                    if known_match(known, prop, h, descs0) is None:
                        # start the playback re-run now, next to the harnesses that are still running
                        def rjob(h=h, r=r):
                            t = tdirs.get()
                            try:
                                return replay_phase1(h, ovl, t, logdir, r)
                            finally:
                                tdirs.put(t)
                        phase1[h.id] = ex.submit(rjob)
                print("  %-44s %-12s %6.1fs  checks=%d covers=%d/%d vars=%d %s" % (
                    h.id, status, r["wall_s"], r["checks_total"], r["covers_sat"], r["covers_total"], r["sat_vars"], reason[:150]))
                sys.stdout.flush()
        # post-process failures serially (replay)
        for r in results:
            h = hs_by_id[r["id"]]
            if r["status"] == "inconclusive":
                inconclusive.append(r)
            elif r["status"] == "fail":
                descs = sorted(set(x["description"] for x in r["failed"]))
                km = known_match(known, prop, h, descs)
                if km is not None:
                    r["status"] = "known"
                    for e in km:
                        line = "KNOWN-FINDING: property=%s %s" % (prop, e.get("what", e.get("check")))
                        if line not in known_lines:
                            known_lines.append(line)
                    continue
                if h.id in phase1:
                    try:
                        tests, prlog = phase1[h.id].result()
                    except Exception as e:  # noqa
                        tests, prlog = [], "playback job failed: %s" % e
                    path, reproduced, info = replay_phase2(h, prop, ovl, logdir, r, tests, prlog)
                else:
                    path, reproduced, info = do_replay_for_failure(h, prop, ovl, tdir, logdir, r)
                r["counterexample"] = [{"check": t["check_desc"], "values": [v["pretty"] for v in t["values"]],
                                        "native": t["native"]["reproduced"], "panic": t["native"]["panic"],
                                        "cli": t.get("cli")} for t in info["tests"]]
                if reproduced:
                    violations.append((h, path))
                    print("VIOLATION property=%s replay=%s" % (prop, path))
                    print("  harness %s: %s" % (h.id, h.desc))
                    sys.stdout.flush()
                else:
                    r["status"] = "inconclusive"
                    r["reason"] = "counterexample did not reproduce natively (model/stub discrepancy or Kani-only check): %s" % descs
                    inconclusive.append(r)
        wall = time.time() - t0
        write_evidence(prop, tier, seed, results, hs_by_id, wall, len(violations), known_lines, inconclusive,
                       "cargo-kani 0.68.0 / CBMC 6.11.0 / CaDiCaL")
        for line in known_lines:
            print(line)
        n_ok = sum(1 for r in results if r["status"] in ("pass", "witness-ok", "known"))
        print("[%s/%s] %d/%d harnesses decided ok, %d violation(s), %d inconclusive, wall %.0fs" % (
            prop, tier, n_ok, len(results), len(violations), len(inconclusive), wall))
        if violations:
            return 1
        if inconclusive:
            for r in inconclusive:
                print("INCONCLUSIVE %s harness=%s: %s" % (prop, r["id"], r["reason"]))
            return 2
        return 0
    finally:
        if keep:
            print("overlay kept at %s" % ovl)
        else:
            ovl_mod.remove_overlay(ovl)


def main():
    ap = argparse.ArgumentParser()
    ap.add_argument("prop", nargs="?")
    ap.add_argument("--tier", default=os.environ.get("VERIF_TIER", "quick"))
    ap.add_argument("--only")
    ap.add_argument("--jobs", type=int, default=int(os.environ.get("VERIF_JOBS", "12")))
    ap.add_argument("--keep", action="store_true")
    ap.add_argument("--replay")
    ap.add_argument("--list", action="store_true")
    ap.add_argument("--setup", action="store_true")
    a = ap.parse_args()
    if a.setup:
        return cmd_setup()
    if a.replay:
        return cmd_replay(a.replay)
    if a.list:
        for h in discover():
            if a.prop and a.prop not in h.props:
                continue
            print("%-46s %-10s %-9s cap=%-5d %s" % (h.id, ",".join(h.props), h.tier, h.cap, h.desc[:90]))
        return 0
    if not a.prop:
        ap.error("property id required")
    if a.tier not in ("quick", "thorough", "attempt"):
        a.tier = "quick"
    return cmd_check(a.prop, a.tier, a.only, a.jobs, a.keep)


if __name__ == "__main__":
    sys.exit(main())
