#!/bin/bash
# usage: tools/seedtest.sh <seed-name> <property> [extra ./check args]
# Applies /verif/seeded/<seed-name>/patch.diff to a scratch worktree of /repo's HEAD and runs the check
# against that tree (VERIF_REPO), with logs/evidence/replays redirected under /var/tmp/seedtest/<seed>.
seed=$1; prop=$2; shift 2
W=/var/tmp/seedwt-$seed-$prop
out=/var/tmp/seedtest/$seed-$prop
rm -rf "$out"; mkdir -p "$out"
git -C /repo worktree remove --force "$W" >/dev/null 2>&1
git -C /repo worktree add -q --detach "$W" HEAD || exit 2
if ! git -C "$W" apply /verif/seeded/$seed/patch.diff; then echo "SEED $seed: patch does not apply"; git -C /repo worktree remove --force "$W"; exit 2; fi
VERIF_REPO=$W VERIF_EVIDENCE_DIR=$out/evidence VERIF_REPLAY_DIR=$out/replays VERIF_LOG_DIR=$out/logs /verif/check $prop "$@" > $out/check.out 2>&1
rc=$?
echo "SEED $seed prop=$prop rc=$rc $(grep -c '^VIOLATION' $out/check.out) violation line(s)"
grep -E "^VIOLATION|^INCONCLUSIVE|fail |inconclusive" $out/check.out | cut -c1-220
{
  echo "seed=$seed property=$prop args=$* rc=$rc date=$(date -u +%FT%TZ) base=$(git -C /repo rev-parse --short HEAD)"
  grep -E "^  [a-z0-9_]+ +(pass|fail|inconclusive|witness-ok|known)" $out/check.out | awk '{print "  " $1, $2, $3}'
  grep -E "^VIOLATION" $out/check.out
} > /verif/seeded/$seed/result-$prop.txt
git -C /repo worktree remove --force "$W"
exit $rc
