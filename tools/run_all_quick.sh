#!/bin/bash
# usage: tools/run_all_quick.sh <outdir> [props...]   runs the quick check of each property against /repo, one after the other, writing the real evidence
out=$1; shift
props="$@"
[ -z "$props" ] && props=$(python3 -c "import json;print(' '.join(c['property_id'] for c in json.load(open('/verif/MANIFEST.json'))['checks']))")
mkdir -p $out
cd /verif
for p in $props; do
  s=$(date +%s)
  ./check $p --tier quick > $out/$p.out 2>&1
  rc=$?
  echo "$p rc=$rc wall=$(( $(date +%s) - s ))" >> $out/summary.txt
done
