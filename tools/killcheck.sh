#!/bin/bash
# usage: killcheck.sh <TAG>   kills every process whose command line mentions the overlay directory verif-<TAG>-* or `vk.py <TAG>`
tag="$1"
me=$$
for pat in "verif-${tag}-" "vk.py ${tag}"; do
  for p in $(pgrep -f -- "$pat"); do
    [ "$p" = "$me" ] && continue
    [ "$p" = "$PPID" ] && continue
    kill -9 "$p" 2>/dev/null
  done
done
sleep 1
rm -rf /var/tmp/verif-${tag}-*
