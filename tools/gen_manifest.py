#!/usr/bin/env python3
"""Regenerates /verif/MANIFEST.json from the harness registry (the `// @harness` annotations) and the
per-property texts below. A property is claimed only if at least two quick harnesses serve it."""
import json
import os
import sys

sys.path.insert(0, os.path.dirname(os.path.abspath(__file__)))
import vk  # noqa: E402

VERIF = vk.VERIF

COMMON_NOTE = (
    "Bounded: every verdict holds only inside the bound listed with each harness in the evidence file (Kani unwinding "
    "assertions on; a failed unwinding assertion, a timeout, an out-of-memory run, an unsatisfied cover point or a "
    "counterexample that does not reproduce natively is reported as inconclusive, exit 2, never as a pass). Trusted base: "
    "Kani 0.68 / CBMC 6.11 / CaDiCaL and their model of Rust and IEEE-754; dev-profile semantics; the stubs listed in the "
    "evidence (foldhash seeds, bumpalo arena wrappers -> Box::leak, alloc::fmt::format, libm functions -> arbitrary double, "
    "core::fmt::write where formatting is not the subject) and the container model (std HashMap/HashSet behind the crate's "
    "FHashMap/FHashSet aliases and hashbrown::HashTable in the interner replaced by bounded association lists, iteration in "
    "insertion order). "
)

PROPS = {
    "C01": dict(
        text="Bounded model checking of kernels: panic-freedom (unwrap/expect, slice indexing, assert!, arithmetic overflow, "
             "unreachable!) of the real float->integer conversions, UTF-8 decoder, span manager, radix parser, JSON lexer, "
             "escaper and numeric builtins, each for ALL inputs inside its bound (e.g. all 2^64 doubles, all 4-byte windows). "
             "This is the level the technique can reach: the property's full quantifier (all programs through the whole "
             "pipeline, process exit status, native stack) is not encodable and is not claimed.",
        note="Out: whole-pipeline runs on arbitrary programs, the inline arms of Evaluator::run, everything behind f64 % f64 "
             "(fmod is not decidable by CBMC here), the YAML parser, native stack depth, the CLI's exit status.",
        ref="DESIGN.md section 6 C01"),
    "C05": dict(
        text="Bounded model checking of the JSON string escaper shared by JSON/Python/TOML/YAML output over every Unicode scalar "
             "value (valid RFC 8259 token + round trip through the crate's JSON lexer, itself tied to the RFC under C20) and of "
             "the field-order computation (sorted, no duplicates, visibility) on symbolic layered objects.",
        note="Out: document structure (nesting, indentation, separators) of whole documents, number printing (Rust flt2dec, "
             "trusted), rendering of the hex digits by core::fmt (stubbed by a direct rendering).",
        ref="DESIGN.md section 6 C05"),
    "C06": dict(
        text="Bounded model checking of every numeric producer's gate at its Rust entry point: Ok implies a finite result, for "
             "all finite arguments, with libm replaced by an arbitrary double (so the verdict is independent of the host libm); "
             "one inductive step of std.sum/std.avg from an arbitrary finite accumulator; the JSON number lexer's finiteness gate.",
        note="Out: %-based results (fmod), correct rounding of decimal literals and shortest printing (Rust dec2flt/flt2dec, trusted).",
        ref="DESIGN.md section 6 C06"),
    "C07": dict(
        text="Bounded model checking of the object layer model: real ObjectData values with symbolic per-layer entries "
             "(absent/default/hidden/forced/Removed marker) for two names; find_field, has_field, has_visible_field, "
             "get_fields_order and get_visible_fields_order are compared with the specification's layer semantics and with each "
             "other for every start layer. Associativity and identity follow from the layer-concatenation lemmas.",
        note="Out: evaluation of field bodies (self/super inside expressions, +: fields, object asserts) - interpreter loop.",
        ref="DESIGN.md section 6 C07"),
    "C14": dict(
        text="Bounded model checking of the lexer's byte-level scanners: UTF-8 decoding against core::str::from_utf8 on every "
             "1-4 byte buffer (character, consumed length, maximal invalid prefix).",
        note="Out: inputs longer than the bounds.",
        ref="DESIGN.md section 6 C14"),
    "C16": dict(
        text="Bounded model checking of the span manager: round trip of (context, start, end) through SpanId for three contexts of "
             "arbitrary lengths up to 2^40, inline/interned decision at the exact bit boundaries, surrounding spans.",
        note="Out: that every run-time error's span is in range (needs evaluation); the rendering itself (sourceannot, third-party).",
        ref="DESIGN.md section 6 C16"),
    "C20": dict(
        text="Bounded model checking of the radix parser (value, first offending character, no panic around the 128-bit cut) and "
             "of the JSON lexer (accept set, decoded value and consumed length against RFC 8259 references).",
        note="Out: MD5/SHA digests, std.parseYaml (third-party parser), the value of str::parse::<f64> (trusted).",
        ref="DESIGN.md section 6 C20"),
    "C18": dict(
        text="Bounded model checking of the in-crate string builtins against a [char] oracle (code points, never bytes).",
        note="Out: delimiters/patterns longer than 2 characters, strings longer than the bounds.",
        ref="DESIGN.md section 6 C18"),
}

# properties whose quick check has been run green on the unchanged tree by me
READY = {"C01", "C06", "C16"}

NA_REASONS = {
    "C11": "Order-independence is a statement about sequences of whole evaluations (load/eval/gc/eval) sharing memoised thunks, the interner and the import cache; it needs the interpreter loop and Program::new (lexing/parsing/analysing the 2k-line stdlib) inside the encoding, and the GOTO program for a single Evaluator::run already exceeds 22 GB in goto-instrument. No kernel smaller than a whole evaluation carries this property.",
    "C12": "The contract is about a process: exit status, stdout/stderr, -o/-m files, closed or full stdout, environment variables. CBMC/Kani have no model of the OS and reject the FFI calls; main_inner is I/O from its first statement.",
    "C13": "Import resolution is Path::exists, canonicalize, fs::read over directory trees and symlinks - file-system state that cannot be made a symbolic variable here without replacing the very calls whose behaviour is the property.",
}
NOT_YET = "No solver check registered for this property yet (build in progress); see DESIGN.md section 6 for the plan."


def main():
    hs = vk.discover()
    props = [json.loads(l) for l in open(os.path.join(VERIF, "properties.jsonl"))]
    checks, na = [], []
    engines = [{"name": "kani-cbmc", "path": "check",
                "serves_properties": [],
                "kind_free_text": "cargo-kani 0.68.0 -> CBMC 6.11.0 -> CaDiCaL over #[kani::proof] harnesses injected into an overlay copy of /repo's working tree (tools/overlay.py, tools/vk.py)"}]
    for p in props:
        pid = p["id"]
        quick = [h for h in hs if pid in h.props and h.prop_tier.get(pid, h.tier) == "quick" and h.expect != "fail"]
        if pid in PROPS and pid in READY and len(quick) >= 2:
            meta = PROPS[pid]
            checks.append({
                "property_id": pid,
                "quick_cmd": "./check %s --tier quick" % pid,
                "thorough_cmd": "./check %s --tier thorough" % pid,
                "evidence_file": "/verif/evidence/%s.json" % pid,
                "replay_cmd_template": "./check --replay {path}",
                "engine": "kani-cbmc",
                "level_claimed": {"category": "model_checking", "text": meta["text"], "design_ref": meta["ref"]},
                "level_note": COMMON_NOTE + meta["note"],
                "technique": "bounded model checking of the real compiled code (Kani 0.68 -> CBMC 6.11 -> CaDiCaL SAT), symbolic inputs, unwinding assertions, native replay of counterexamples",
            })
            engines[0]["serves_properties"].append(pid)
        else:
            na.append({"property_id": pid, "reason": NA_REASONS.get(pid, NOT_YET)})
    m = {
        "version": 1,
        "setup_cmd": "true",
        "hooks": {
            "guard": "kani",
            "enable": "no hooks in /repo: each check copies /repo's working tree to a scratch overlay and appends `#[cfg(kani)] mod kani_harness;` to the target modules (tools/overlay.py); the cfg is set by cargo kani only",
            "baseline_off_cmd": "cd /repo && cargo test --workspace --no-fail-fast --offline",
            "source_commits": [],
            "add_only": True,
        },
        "engines": engines,
        "checks": checks,
        "not_applicable": na,
        "notes": "Exit codes of every check: 0 held / only listed known findings; 1 replayed violation (VIOLATION line); 2 inconclusive. Fix commits in /repo are listed in known_findings.json as fixed entries.",
    }
    json.dump(m, open(os.path.join(VERIF, "MANIFEST.json"), "w"), indent=1)
    print("claimed:", [c["property_id"] for c in checks])
    print("not claimed:", [x["property_id"] for x in na])


if __name__ == "__main__":
    main()
