#!/usr/bin/env python3
"""Regenerates /verif/MANIFEST.json from the harness registry (the `// @harness` annotations) and the
per-property texts below. A property is claimed only if at least two quick harnesses serve it."""
import json
import os
import sys

sys.path.insert(0, os.path.dirname(os.path.abspath(__file__)))
import vk  # noqa: E402

VERIF = vk.VERIF

COMMON_NOTE = (
    "Bounded: every verdict holds only inside the bound listed with each harness in the evidence file (Kani unwinding "
    "assertions on; a failed unwinding assertion, a timeout, an out-of-memory run, an unsatisfied cover point or a "
    "counterexample that does not reproduce natively is reported as inconclusive, exit 2, never as a pass). Trusted base: "
    "Kani 0.68 / CBMC 6.11 / CaDiCaL and their model of Rust and IEEE-754; dev-profile semantics; the stubs listed in the "
    "evidence (foldhash seeds, bumpalo arena wrappers -> Box::leak, alloc::fmt::format, libm functions -> arbitrary double, "
    "core::fmt::write where formatting is not the subject) and the container model (std HashMap/HashSet behind the crate's "
    "FHashMap/FHashSet aliases and hashbrown::HashTable in the interner replaced by bounded association lists, iteration in "
    "insertion order). "
)

PROPS = {
    "C01": dict(
        text="Bounded model checking of kernels: panic-freedom (unwrap/expect, slice indexing, assert!, arithmetic overflow, unreachable!) of the real float->integer conversions (all 2^64 doubles), the UTF-8 decoder (all 4-byte windows), the operator scanner, the span manager, the slice-range arithmetic, the numeric step functions and one iteration of the evaluator loop on the frame bookkeeping states, each for ALL inputs inside its bound; in the thorough tier every harness of every property serves C01 (each decides panic-freedom of the code it calls). This is the level the technique can reach: the property's full quantifier (all programs through the whole pipeline, the process exit status, the native stack) is not encodable and is not claimed.",
        note="Out: whole-pipeline runs on arbitrary programs, everything behind f64 % f64 (fmod is not decidable by CBMC here), the YAML parser, native stack depth, the CLI's exit status, panics raised inside core::fmt (stubbed). A crash outside these kernels (std.map with a defaulted parameter, F9) was found by a sub-agent, not by a check, and repaired.",
        ref="DESIGN.md section 6 C01, section 11"),
    "C02": dict(
        text='Bounded model checking of the core language at the level of single evaluator steps on the real code: the arithmetic / bitwise / shift operators against the specification written out in the harness (all finite doubles); one iteration of the real Evaluator::run on if, && / || (short circuit), unary operators, array indexing, assert and the comprehension bookkeeping (binding order of nested generators, filters); one call of the real do_expr per expression kind (evaluation order, which operands are scheduled and which are kept unevaluated, variable lookup finds the innermost binding); the real parameter binder on positional / named / defaulted arguments with symbolic names; slice-range arithmetic.',
        note='Out: whole programs (the composition of steps is the interpreter loop itself, argued by induction over the state stack, not discharged); objects with inheritance beyond the layer lemmas of C07; the % operator (fmod); string formatting; closures / letrec / delayed calls are thorough-tier harnesses (3-15 M SAT variables each).',
        ref="DESIGN.md section 6 C02, section 11"),
    "C03": dict(
        text="Bounded model checking of trace completeness: the real GcTrace implementations of every heap data type "
             "(ThunkData/ThunkState/PendingThunk, ValueData, ThunkEnv/ThunkEnvData/ThunkEnvObject, FuncData/FuncKind, "
             "ObjectData/ObjectLayer/ObjectField/ObjectFieldData) are run under the collector's real count and mark contexts on "
             "values whose every handle points to a distinct object; each target must be visited exactly once. A skipped or doubled "
             "field is what makes the collector reclaim a reachable object or leak an unreachable one.",
        note="Out (not decided): exactness of GcContext::gc itself on symbolic heaps (not decided by CBMC even for two nodes), and "
             "schedule independence of whole evaluations (interpreter loop).",
        ref="DESIGN.md section 6 C03, section 11"),
    "C04": dict(
        text='Bounded model checking of the mechanisms that implement call-by-need, on the real code: the ThunkData state machine for every kind of delayed computation (a pending payload is handed out exactly once, Done is absorbing), the DoThunk / GotThunk arms of the real Evaluator::run (a done thunk is reused, a pending one is marked in progress and memoised), the creation site used by every binding position (new_pending_expr_thunk evaluates nothing but literals), and the laziness of the control constructs: if schedules one branch, && / || do not schedule the right operand when the left decides, a true assert does not evaluate its message, indexing forces only the selected element, call arguments are not scheduled.',
        note='Out: that unused bindings of arbitrary programs are never forced, and the rewrite laws over whole programs (interpreter loop); std.trace output.',
        ref="DESIGN.md section 6 C04, section 11"),
    "C05": dict(
        text="Bounded model checking of the JSON string escaper shared by JSON/Python/TOML/YAML output over every Unicode scalar "
             "value: byte-for-byte equality with a reference escaper per UTF-8 width class, plus RFC 8259 validity and decodability "
             "of the reference escaper over all scalar values; the crate's JSON lexer is tied to the same RFC reference decoder "
             "under C20, which closes the round trip.",
        note="Out: document structure (nesting, indentation, separators) of whole documents, number printing (Rust flt2dec, "
             "trusted), the four hex digits rendered by core::fmt (stubbed: the harness decides which characters take the \\uXXXX "
             "branch), field order (get_fields_order is beyond CBMC's reach, thorough-tier attempts only), the YAML/TOML plain-key "
             "predicates.",
        ref="DESIGN.md section 6 C05, section 11"),
    "C06": dict(
        text="Bounded model checking of every numeric producer's gate at its Rust entry point: Ok implies a finite result, for "
             "all finite arguments, with libm replaced by an arbitrary double (so the verdict is independent of the host libm); "
             "one inductive step of std.sum/std.avg from an arbitrary finite accumulator; + - and the / gate; the literal-thunk "
             "finiteness guard.",
        note="Out: %-based results (fmod), correct rounding of decimal literals and shortest printing (Rust dec2flt/flt2dec, trusted).",
        ref="DESIGN.md section 6 C06, section 11"),
    "C07": dict(
        text="Bounded model checking of the object layer model: real ObjectData values of 3 layers with symbolic per-layer entries (absent/default/hidden/forced/Removed marker) for two names; find_field, has_field (super lookup from every start layer) and has_visible_field are compared with the specification's layer semantics; extend_object (the + operator) keeps the layer order Y.self, X.self, X.super, every layer's asserts, and marks the result unchecked whenever any layer carries an assert; the `in` operator finds hidden fields.",
        note="Out: evaluation of field bodies (self/super inside expressions, +: fields, object asserts) - interpreter loop; extend_object with fields, objectRemoveKey, objectHasEx, 4-layer lookups and get_fields_order (sorted field list, resolved visibility) are attempt-tier harnesses without a verdict.",
        ref="DESIGN.md section 6 C07, section 11"),
    "C08": dict(
        text="Bounded model checking of the comparison state machine, which is written inline in Evaluator::run: ONE iteration "
             "of the real run() loop is executed per case from a symbolic pre-state (every method run() delegates to is "
             "replaced by a panicking stub generated from run()'s current source). Decided: == on primitives (same type and "
             "same content, +0 == -0, mixed types false and never an error, function == function the error), the array walk of == "
             "(length test first, left to right, early exit on the first different item, verdict of the last item), < on "
             "numbers (numeric, total on finite numbers) and strings, the errors for values that cannot be ordered, the "
             "lexicographic array walk of < (first differing item decides, a proper prefix is smaller), the mapping of an "
             "ordering to < <= > >= and of == to !=, and that byte order of UTF-8 strings is code-point order.",
        note="Each step is decided for arbitrary operands / cursors; the laws over whole values (reflexivity, symmetry, "
             "transitivity of nested arrays) follow by induction over the index and the nesting, which is argued in the "
             "harness descriptions, not discharged by the solver. Out: == on objects (needs get_visible_fields_order, see C07), "
             "std.sort/std.set consistency with < (C17), inputs larger than the stated array lengths within one step.",
        ref="DESIGN.md section 6 C08, section 11.4"),
    "C09": dict(
        text="Bounded model checking of the static analyzer on real syntax trees of fixed shape whose binder and use-site names are symbolic (four interned identifiers, one never bound): `local X = E1, Y = E2; B` (mutual recursion, repeated binder, unbound use) and `function(P, Q = D) B` (repeated parameter, default referring to a parameter, unbound use); verdict and error kind equal the scoping judgment of the specification. The run-time counterpart (a variable reference resolves to the innermost binding, closures capture their definition environment) is decided by thorough-tier harnesses on the real do_expr.",
        note="Out: arbitrary nesting depth; comprehension, object, import-path and call-argument templates exist but were not decided within 25 min (attempt tier); the run-time half over whole programs needs evaluation.",
        ref="DESIGN.md section 6 C09, section 11"),
    "C10": dict(
        text="Bounded model checking of the depth-limit mechanism, which lives inside Evaluator::run: one iteration of the real "
             "run() loop on the frame bookkeeping states with ANY trace length and ANY limit stops with StackOverflow exactly when "
             "the new trace length exceeds the limit; push_trace_item / delay_trace_item keep the counter equal to the number of "
             "live frames; demanding a thunk that is being evaluated (DoThunk on InProgress) is reported as InfiniteRecursion "
             "instead of recursing.",
        note="Out: that every recursion of an arbitrary program passes through a counted frame (whole evaluations), monotonicity "
             "in the limit over whole programs, and the native stack of the parser/analyzer (no stack-depth model in CBMC; a known "
             "native recursion in Parser::parse_expr is recorded in DESIGN.md section 5).",
        ref="DESIGN.md section 6 C10, section 11.4"),
    "C14": dict(
        text="Bounded model checking of the lexer's byte-level scanners: UTF-8 decoding against core::str::from_utf8 on every "
             "1-4 byte buffer (character, consumed length, maximal invalid prefix), operator maximal munch on every 4-byte input, "
             "token tiling and error location on every 1-byte input (2-4 bytes in the thorough tier).",
        note="Out: inputs longer than the bounds; literal values of strings, text blocks and numbers.",
        ref="DESIGN.md section 6 C14, section 11"),
    "C15": dict(
        text="Bounded model checking of the parser on token vectors built directly: for every pair of the 19 binary operator "
             "tokens `a op1 b op2 c` parses to the tree the precedence table and left associativity prescribe, a unary operator "
             "binds tighter than any binary one, and node spans run from first to last token with children inside parents.",
        note="Out: print-and-reparse stability (the code base has no printer), postfix forms and slices, objects, comprehensions, "
             "error messages.",
        ref="DESIGN.md section 6 C15, section 11"),
    "C16": dict(
        text="Bounded model checking of the span manager: round trip of (context, start, end) through SpanId for three contexts of "
             "arbitrary lengths up to 2^40, inline/interned decision at the exact bit boundaries, surrounding spans.",
        note="Out: that every run-time error's span is in range (needs evaluation); the rendering itself (sourceannot, third-party); "
             "trace cropping.",
        ref="DESIGN.md section 6 C16, section 11"),
    "C17": dict(
        text="Bounded model checking of the step contracts of std.sort / std.set / set operations / setMember / minArray / "
             "maxArray: each real step function is run once from an arbitrary pre-state (cursors, permutation contents, comparison "
             "outcomes, foreign outcomes below on the comparison stack) and its post-state is compared with the textbook step "
             "(stable partition, stable merge taking the left element on ties, merge walks, binary search, strict improvement).",
        note="Out: the composition argument (induction over the range length) is standard and written in the harness header, not "
             "discharged by the solver; arrays longer than the bounds inside a single step; key functions other than the identity.",
        ref="DESIGN.md section 6 C17, section 11"),
    "C18": dict(
        text="Bounded model checking of code-point semantics where it was reachable in the quick tier: slice-range arithmetic against the character count's contract, string slices (s[a:b:c], std.slice) handing the number of code points - not bytes - of strings of two arbitrary characters (UTF-8 widths (2,3), (4,1), (1,1)) to that arithmetic, the radix parser reporting the offending character (not byte), and the order of strings (byte order of UTF-8 equals code-point order, two arbitrary characters per string).",
        note='Out: everything that builds strings under the solver (substr / findSubstr / strip / split / join identities, std.length, s[i], the character selection of slices of symbolic strings, format widths): those harnesses exist but were not decided within 25 min once the unsound String::reserve stub of the first session was replaced; they are thorough-tier attempts.',
        ref="DESIGN.md section 6 C18, section 11"),
    "C19": dict(
        text="Bounded model checking of std.format's field padding (width counted in characters, justification) at both call "
             "sites and of the sign / zero-padding decoration shared by the numeric directives.",
        note="Out: the format-string parser and argument state machine, digit exactness (host formatter, fmod), panics inside "
             "core::fmt (the formatter is stubbed).",
        ref="DESIGN.md section 6 C19, section 11"),
    "C20": dict(
        text="Bounded model checking of the radix parser (value, first offending character), of the JSON number lexer (RFC 8259 grammar on every 4-byte ASCII input, finiteness) and of the base64 decoder's accept set.",
        note='Out: MD5/SHA digests, std.parseYaml (third-party parser), the value of str::parse::<f64> (trusted), JSON string tokens and base64 round trips (harnesses exist, not decided within 25 min: thorough-tier attempts), parse_json document structure.',
        ref="DESIGN.md section 6 C20, section 11"),
}

# properties whose quick check has been run green on the unchanged tree by me
READY = {"C01", "C02", "C03", "C04", "C05", "C06", "C07", "C08", "C09", "C10", "C14", "C16", "C17", "C18", "C20"}

NA_REASONS = {
    "C15": "The parser harnesses exist (Parser::parse_root_expr on token vectors `a op1 b op2 c` with symbolic operators, `u a op b`) but CBMC does not decide them: 14-20 GB and no verdict within 30 min at either field-sensitivity setting (arena-allocated AST nodes and span interning make every node a pointer read back from a heap object). They are attempt-tier harnesses, not a claim; print-and-reparse stability is not encodable at all (the code base has no printer).",
    "C19": "No harness of std.format is decided by CBMC: the rendering code builds strings whose length depends on symbolic widths / precisions, String::push of the pinned toolchain needs a model of String::reserve, and with a sound (bounded-growth) model the field-padding and sign / zero-padding harnesses were not decided within 25 min (the first session's verdict-free attempts used an unsound no-op stub). Digits come from core::fmt and fmod, which are out of reach anyway. The harnesses stay as thorough-tier attempts; the two defects found by reading (F5, F6) stay repaired.",
    "C11": "Order-independence is a statement about sequences of whole evaluations (load/eval/gc/eval) sharing memoised thunks, the interner and the import cache; it needs the interpreter loop and Program::new (lexing/parsing/analysing the 2k-line stdlib) inside the encoding, and the GOTO program for a single Evaluator::run already exceeds 22 GB in goto-instrument. No kernel smaller than a whole evaluation carries this property.",
    "C12": "The contract is about a process: exit status, stdout/stderr, -o/-m files, closed or full stdout, environment variables. CBMC/Kani have no model of the OS and reject the FFI calls; main_inner is I/O from its first statement.",
    "C13": "Import resolution is Path::exists, canonicalize, fs::read over directory trees and symlinks - file-system state that cannot be made a symbolic variable here without replacing the very calls whose behaviour is the property.",
}
NOT_YET = "No solver check registered for this property yet (build in progress); see DESIGN.md section 6 for the plan."


def main():
    hs = vk.discover()
    props = [json.loads(l) for l in open(os.path.join(VERIF, "properties.jsonl"))]
    checks, na = [], []
    engines = [{"name": "kani-cbmc", "path": "check",
                "serves_properties": [],
                "kind_free_text": "cargo-kani 0.68.0 -> CBMC 6.11.0 -> CaDiCaL over #[kani::proof] harnesses injected into an overlay copy of /repo's working tree (tools/overlay.py, tools/vk.py)"}]
    for p in props:
        pid = p["id"]
        quick = [h for h in hs if pid in h.props and vk.eff_tier(h, pid) == "quick" and h.expect != "fail"]
        if pid in PROPS and pid in READY and len(quick) >= 2:
            meta = PROPS[pid]
            checks.append({
                "property_id": pid,
                "quick_cmd": "./check %s --tier quick" % pid,
                "thorough_cmd": "./check %s --tier thorough" % pid,
                "evidence_file": "/verif/evidence/%s.json" % pid,
                "replay_cmd_template": "./check --replay {path}",
                "engine": "kani-cbmc",
                "level_claimed": {"category": "model_checking", "text": meta["text"], "design_ref": meta["ref"]},
                "level_note": COMMON_NOTE + meta["note"],
                "technique": "bounded model checking of the real compiled code (Kani 0.68 -> CBMC 6.11 -> CaDiCaL SAT), symbolic inputs, unwinding assertions, native replay of counterexamples",
            })
            engines[0]["serves_properties"].append(pid)
        else:
            na.append({"property_id": pid, "reason": NA_REASONS.get(pid, NOT_YET)})
    m = {
        "version": 1,
        "setup_cmd": "./check --setup",
        "hooks": {
            "guard": "kani",
            "enable": "no hooks in /repo: each check copies /repo's working tree to a scratch overlay and appends `#[cfg(kani)] mod kani_harness;` to the target modules (tools/overlay.py); the cfg is set by cargo kani only",
            "baseline_off_cmd": "cd /repo && cargo test --workspace --no-fail-fast --offline",
            "source_commits": [],
            "add_only": True,
        },
        "engines": engines,
        "checks": checks,
        "not_applicable": na,
        "notes": "Exit codes of every check: 0 held / only listed known findings; 1 replayed violation (VIOLATION line); 2 inconclusive (never a pass). Tiers: quick_cmd runs the quick harnesses of the property (each check finishes in 2-8 min on an idle 16-core machine); thorough_cmd adds the harnesses that are decided but need 5-15 min each; harnesses that were never decided within the caps tried (tier `attempt`) are run by no registered command (./check <ID> --tier attempt). Fix commits in /repo (nine, F1-F9) are listed in known_findings.json as fixed entries, which suppress nothing. Seeded changes and their outcomes: /verif/seeded and DESIGN.md section 11.3.",
    }
    json.dump(m, open(os.path.join(VERIF, "MANIFEST.json"), "w"), indent=1)
    print("claimed:", [c["property_id"] for c in checks])
    print("not claimed:", [x["property_id"] for x in na])


if __name__ == "__main__":
    main()
