#!/bin/bash
# kills the sweep driver script and the check it is running
for p in $(pgrep -f "sweep[0-9]/run[0-9]*.s[h]"); do kill -9 $p; done
