//! Kani harnesses for free functions of `stdlib.rs` (C20): base64.
use super::*;
use crate::kani_support as ks;

const ALPHABET: &[u8; 64] = b"ABCDEFGHIJKLMNOPQRSTUVWXYZabcdefghijklmnopqrstuvwxyz0123456789+/";

fn check_base64_roundtrip<const L: usize>() {
    let bytes: [u8; L] = kani::any();
    let encoded = encode_base64(bytes.iter().map(|&b| Ok(b)));
    let Ok(encoded) = encoded else { panic!("encoding plain bytes cannot fail") };
    // canonical RFC 4648 shape: 4 characters per 3 bytes, alphabet only, (3 - L mod 3) mod 3 padding characters at the end
    let want_len = 4 * ((L + 2) / 3);
    let pad = (3 - L % 3) % 3;
    let eb = encoded.as_bytes();
    assert!(eb.len() == want_len, "4 characters per started group of 3 bytes");
    let mut k = 0;
    while k < want_len {
        if k >= want_len - pad {
            assert!(eb[k] == b'=', "padding only at the end, exactly (3 - n mod 3) mod 3 characters");
        } else {
            let mut in_alphabet = false;
            let mut a = 0;
            while a < 64 {
                if ALPHABET[a] == eb[k] {
                    in_alphabet = true;
                }
                a += 1;
            }
            assert!(in_alphabet, "only characters of the base64 alphabet");
        }
        k += 1;
    }
    // the first character carries the top six bits of the first byte (spot check of the bit layout)
    assert!(eb[0] == ALPHABET[(bytes[0] >> 2) as usize], "bit layout of the first sextet");
    // decode inverts encode
    let chars: Vec<char> = encoded.chars().collect();
    let decoded = decode_base64(&chars);
    match &decoded {
        Ok(d) => {
            assert!(d.len() == L, "decoded length");
            let mut i = 0;
            while i < L {
                assert!(d[i] == bytes[i], "decode(encode(b)) == b");
                i += 1;
            }
        }
        Err(_) => assert!(false, "the encoder's output is decodable"),
    }
    kani::cover!(bytes[0] == 0xFF, "byte 0xFF");
    core::mem::forget(decoded);
    core::mem::forget(chars);
    core::mem::forget(encoded);
}

macro_rules! base64_harness {
    ($name:ident, $l:expr, $unwind:expr) => {
        #[kani::proof]
        #[kani::unwind($unwind)]
        #[kani::stub(alloc::fmt::format, ks::stub_fmt_format)]
        #[kani::stub(core::fmt::write, ks::stub_fmt_write_nothing)]
        fn $name() {
            check_base64_roundtrip::<$l>();
        }
    };
}

// @harness id=c20_base64_roundtrip_2 props=C20,C01:thorough tier=attempt cap=1500
// @desc encode_base64 / decode_base64 (std.base64, std.base64Decode(Bytes)) on every 2-byte input: the encoding is canonical RFC 4648 (4 characters per started group, alphabet only, one `=`), and decoding it returns the input
// @bound all 65 536 two-byte inputs
// @funcs stdlib::encode_base64, stdlib::decode_base64
base64_harness!(c20_base64_roundtrip_2, 2, 66);

// @harness id=c20_base64_roundtrip_3 props=C20 tier=attempt cap=1500
// @desc as c20_base64_roundtrip_2 for every 3-byte input (no padding)
// @bound all 2^24 three-byte inputs
// @funcs stdlib::encode_base64, stdlib::decode_base64
base64_harness!(c20_base64_roundtrip_3, 3, 66);

// @harness id=c20_base64_roundtrip_4 props=C20 tier=attempt cap=3600
// @desc as c20_base64_roundtrip_2 for every 4-byte input (two groups, `==` padding)
// @bound all 2^32 four-byte inputs
// @funcs stdlib::encode_base64, stdlib::decode_base64
base64_harness!(c20_base64_roundtrip_4, 4, 66);

// @harness id=c20_base64_decode_rejects props=C20,C01:thorough tier=quick cap=1500
// @desc decode_base64 on every 4-character input (any Unicode scalar values): accepted exactly when characters 0 and 1 are in the alphabet and characters 2, 3 are (alphabet, alphabet), (alphabet, `=`) or (`=`, `=`); an input whose length is not a multiple of 4 is rejected; no panic
// @bound 4 arbitrary characters; lengths 1..=4
// @funcs stdlib::decode_base64
#[kani::proof]
#[kani::unwind(8)]
#[kani::stub(alloc::fmt::format, ks::stub_fmt_format)]
#[kani::stub(core::fmt::write, ks::stub_fmt_write_nothing)]
fn c20_base64_decode_rejects() {
    let c: [char; 4] = kani::any();
    let len: usize = kani::any();
    kani::assume(len >= 1 && len <= 4);
    let in_alpha = |ch: char| ch.is_ascii_alphanumeric() || ch == '+' || ch == '/';
    let res = decode_base64(&c[..len]);
    let want = len == 4
        && in_alpha(c[0])
        && in_alpha(c[1])
        && ((in_alpha(c[2]) && in_alpha(c[3])) || (in_alpha(c[2]) && c[3] == '=') || (c[2] == '=' && c[3] == '='));
    assert!(res.is_ok() == want, "accept set of one base64 group");
    if let Ok(d) = &res {
        let n = if c[2] == '=' { 1 } else if c[3] == '=' { 2 } else { 3 };
        assert!(d.len() == n, "1, 2 or 3 bytes depending on the padding");
        kani::cover!(n == 1, "double padding");
    } else {
        kani::cover!(len == 4 && c[2] == '=' && c[3] != '=', "`=` followed by a data character rejected");
    }
    core::mem::forget(res);
}
