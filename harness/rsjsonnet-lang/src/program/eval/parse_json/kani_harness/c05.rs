//! C05-H1: `escape_string_json` (shared by JSON, Python, TOML and YAML output)
//! on one arbitrary Unicode scalar value.
use super::*;

/// RFC 8259 section 7 on the bytes of a JSON string token: quotes at both ends,
/// no byte below 0x20, `"` and `\` only as part of an escape, every escape one of
/// `\" \\ \/ \b \f \n \r \t \uXXXX`.
fn rfc8259_string_token(b: &[u8]) -> bool {
    let n = b.len();
    if n < 2 || b[0] != b'"' || b[n - 1] != b'"' {
        return false;
    }
    let mut i = 1;
    while i < n - 1 {
        let c = b[i];
        if c < 0x20 || c == b'"' {
            return false;
        }
        if c == b'\\' {
            if i + 1 >= n - 1 {
                return false;
            }
            match b[i + 1] {
                b'"' | b'\\' | b'/' | b'b' | b'f' | b'n' | b'r' | b't' => i += 2,
                b'u' => {
                    if i + 5 >= n - 1 {
                        return false;
                    }
                    let mut k = 2;
                    while k < 6 {
                        if !b[i + k].is_ascii_hexdigit() {
                            return false;
                        }
                        k += 1;
                    }
                    i += 6;
                }
                _ => return false,
            }
        } else {
            i += 1;
        }
    }
    true
}

fn hex(n: u32) -> u8 {
    let n = (n & 0xF) as u8;
    if n < 10 { b'0' + n } else { b'a' + (n - 10) }
}

/// Reference JSON escaper for one scalar value, on byte arrays (no allocation). Which characters
/// MUST be escaped is RFC 8259 section 7 (quote, backslash, U+0000..U+001F); escaping DEL and the C1
/// controls as \u00XX is the implementation's documented choice and is legal JSON.
/// Its own validity and decodability is established by `c05_ref_escape_valid`.
fn ref_escape(c: char) -> ([u8; 8], usize) {
    let mut o = [0u8; 8];
    o[0] = b'"';
    let v = c as u32;
    let n = match c {
        '\u{8}' => { o[1] = b'\\'; o[2] = b'b'; 3 }
        '\t' => { o[1] = b'\\'; o[2] = b't'; 3 }
        '\n' => { o[1] = b'\\'; o[2] = b'n'; 3 }
        '\u{c}' => { o[1] = b'\\'; o[2] = b'f'; 3 }
        '\r' => { o[1] = b'\\'; o[2] = b'r'; 3 }
        '"' => { o[1] = b'\\'; o[2] = b'"'; 3 }
        '\\' => { o[1] = b'\\'; o[2] = b'\\'; 3 }
        _ if v < 0x20 || (v >= 0x7F && v <= 0x9F) => {
            o[1] = b'\\';
            o[2] = b'u';
            o[3] = hex(v >> 12);
            o[4] = hex(v >> 8);
            o[5] = hex(v >> 4);
            o[6] = hex(v);
            7
        }
        _ => {
            let mut b = [0u8; 4];
            let w = c.encode_utf8(&mut b).len();
            let mut i = 0;
            while i < 4 {
                if i < w {
                    o[1 + i] = b[i];
                }
                i += 1;
            }
            1 + w
        }
    };
    o[n] = b'"';
    (o, n + 1)
}

/// `W` = UTF-8 width class of the character (the input string has a concrete length).
fn escape_one_char_matches_reference<const W: usize>(c: char) {
    kani::assume(c.len_utf8() == W);
    let mut buf = [0u8; 4];
    c.encode_utf8(&mut buf);
    let s: &str = core::str::from_utf8(&buf[..W]).unwrap();
    let mut out = String::with_capacity(16);
    escape_string_json(s, &mut out);
    // copy to a stack array first: every later check is then free of heap reads at symbolic offsets
    let out_len = out.len();
    assert!(out_len >= 2 && out_len <= 8, "at most 6 bytes plus the quotes");
    let mut arr = [0u8; 8];
    let ob = out.as_bytes();
    let mut i = 0;
    while i < 8 {
        if i < out_len {
            arr[i] = ob[i];
        }
        i += 1;
    }
    let (want, want_len) = ref_escape(c);
    if want_len == 8 {
        // the \\uXXXX branch: its six bytes come from `write!(result, "\\u{:04x}", ..)`, i.e. from core::fmt, which
        // is stubbed to append nothing (trusted std; keeping it in the program costs CBMC 9x the time and my own
        // rendering through `dyn fmt::Write` ran out of memory). What is decided here is WHICH characters take it.
        assert!(out_len == 2 && arr[0] == b'"' && arr[1] == b'"', "exactly the characters the reference escapes as \\uXXXX take the formatting branch");
    } else {
        assert!(out_len == want_len, "escaped length equals the reference");
        i = 0;
        while i < 8 {
            if i < want_len {
                assert!(arr[i] == want[i], "escaped bytes equal the reference escaper's");
            }
            i += 1;
        }
    }
    kani::cover!(out_len == 2 + W, "raw character");
    core::mem::forget(out);
}

// @harness id=c05_ref_escape_valid props=C05 tier=quick cap=900
// @desc the reference escaper used as oracle by c05_escape_json_w*: for every Unicode scalar value its output is a valid RFC 8259 string token (no raw byte < 0x20, no bare quote or backslash, only the nine legal escapes) and the RFC reference decoder (proved equal to the crate's JSON lexer by c20_json_string_*) decodes it back to exactly that character - so escape -> std.parseJson is the identity on every character
// @bound every Unicode scalar value in one query; pure byte-array code
// @funcs (oracle) ref_escape, rfc8259_string_token, c20::ref_json_string
#[kani::proof]
#[kani::unwind(10)]
fn c05_ref_escape_valid() {
    let c: char = kani::any();
    let (o, n) = ref_escape(c);
    assert!(n >= 3 && n <= 8, "length");
    assert!(rfc8259_string_token(&o[..n]), "valid RFC 8259 string token");
    let dec = super::c20::ref_json_string(&o[1..n]);
    assert!(dec.ok && dec.consumed + 1 == n, "decodes, closing quote last");
    assert!(dec.n_out == 1 && dec.out[0] == c as u32, "decodes back to the same character");
    kani::cover!(n == 8, "\\uXXXX escape");
    kani::cover!(n == 6, "raw 4-byte character");
    kani::cover!(n == 4, "two-character escape or raw 2-byte character");
}

// @harness id=c05_escape_json_w1 props=C05,C01:thorough tier=quick cap=1500 unwindset=escape_string_json.0:3
// @desc escape_string_json on a string of one arbitrary ASCII character (all control characters, quote, backslash, DEL included): the output equals, byte for byte, the reference escaper's (quote, backslash and every control character U+0000..U+001F escaped; DEL and C1 controls as \\u00XX; everything else raw), whose RFC 8259 validity and round trip are established by c05_ref_escape_valid
// @bound every 1-byte scalar value U+0000..U+007F in one query
// @funcs manifest::escape_string_json
// @out the text produced by `write!(result, "\\u{:04x}", chr as u32)` (core::fmt, trusted std, stubbed to append nothing: the harness decides which characters take that branch, not the digits); strings longer than one character (the escaper is a per-character map, so this is the whole of its logic)
#[kani::proof]
#[kani::unwind(10)]
#[kani::stub(core::fmt::write, ks::stub_fmt_write_nothing)]
fn c05_escape_json_w1() {
    let c: char = kani::any();
    escape_one_char_matches_reference::<1>(c);
    kani::cover!(c == '\u{1f}', "U+001F takes the \\uXXXX branch");
    kani::cover!(c == '\u{7f}', "DEL");
}

// @harness id=c05_escape_json_w2 props=C05,C01:thorough tier=quick cap=1500 unwindset=escape_string_json.0:3
// @desc as c05_escape_json_w1 for every 2-byte scalar value U+0080..U+07FF (includes the C1 controls U+0080..U+009F that are escaped as \u00XX)
// @bound every 2-byte scalar value in one query
// @funcs manifest::escape_string_json
#[kani::proof]
#[kani::unwind(10)]
#[kani::stub(core::fmt::write, ks::stub_fmt_write_nothing)]
fn c05_escape_json_w2() {
    let c: char = kani::any();
    escape_one_char_matches_reference::<2>(c);
    kani::cover!(c == '\u{9f}', "last C1 control takes the \\uXXXX branch");
}

// @harness id=c05_escape_json_w3 props=C05,C01:thorough tier=quick cap=1500 unwindset=escape_string_json.0:3
// @desc as c05_escape_json_w1 for every 3-byte scalar value U+0800..U+FFFF (surrogates excluded by the char type)
// @bound every 3-byte scalar value in one query
// @funcs manifest::escape_string_json
#[kani::proof]
#[kani::unwind(10)]
#[kani::stub(core::fmt::write, ks::stub_fmt_write_nothing)]
fn c05_escape_json_w3() {
    let c: char = kani::any();
    escape_one_char_matches_reference::<3>(c);
}

// @harness id=c05_escape_json_w4 props=C05,C01:thorough tier=quick cap=1500 unwindset=escape_string_json.0:3
// @desc as c05_escape_json_w1 for every 4-byte scalar value U+10000..U+10FFFF
// @bound every 4-byte scalar value in one query
// @funcs manifest::escape_string_json
#[kani::proof]
#[kani::unwind(10)]
#[kani::stub(core::fmt::write, ks::stub_fmt_write_nothing)]
fn c05_escape_json_w4() {
    let c: char = kani::any();
    escape_one_char_matches_reference::<4>(c);
}

// @harness id=c05_escape_must_fail props=C05 tier=quick cap=1500 expect=fail unwindset=escape_string_json.0:3
// @desc vacuity twin of c05_escape_json_w1
#[kani::proof]
#[kani::unwind(10)]
#[kani::stub(core::fmt::write, ks::stub_fmt_write_nothing)]
fn c05_escape_must_fail() {
    let c: char = kani::any();
    escape_one_char_matches_reference::<1>(c);
    assert!(false, "reachability witness");
}
