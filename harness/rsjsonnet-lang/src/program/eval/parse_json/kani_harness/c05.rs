//! C05-H1: `escape_string_json` (shared by JSON, Python, TOML and YAML output)
//! on one arbitrary Unicode scalar value.
use super::*;

/// RFC 8259 section 7 on the bytes of a JSON string token: quotes at both ends,
/// no byte below 0x20, `"` and `\` only as part of an escape, every escape one of
/// `\" \\ \/ \b \f \n \r \t \uXXXX`.
fn rfc8259_string_token(b: &[u8]) -> bool {
    let n = b.len();
    if n < 2 || b[0] != b'"' || b[n - 1] != b'"' {
        return false;
    }
    let mut i = 1;
    while i < n - 1 {
        let c = b[i];
        if c < 0x20 || c == b'"' {
            return false;
        }
        if c == b'\\' {
            if i + 1 >= n - 1 {
                return false;
            }
            match b[i + 1] {
                b'"' | b'\\' | b'/' | b'b' | b'f' | b'n' | b'r' | b't' => i += 2,
                b'u' => {
                    if i + 5 >= n - 1 {
                        return false;
                    }
                    let mut k = 2;
                    while k < 6 {
                        if !b[i + k].is_ascii_hexdigit() {
                            return false;
                        }
                        k += 1;
                    }
                    i += 6;
                }
                _ => return false,
            }
        } else {
            i += 1;
        }
    }
    true
}

fn escape_one_char_roundtrip(c: char) {
    ks::ESC_VALUE.store(c as u32, core::sync::atomic::Ordering::Relaxed);
    let mut buf = [0u8; 4];
    let s: &str = c.encode_utf8(&mut buf);
    let mut out = String::with_capacity(16);
    escape_string_json(s, &mut out);
    assert!(out.len() >= 3 && out.len() <= 8, "one character escapes to 1..6 bytes plus the quotes");
    assert!(rfc8259_string_token(out.as_bytes()), "escaped text is a valid RFC 8259 string token (no raw control character, quote or backslash)");
    // decode with the crate's own JSON lexer (tied to the RFC by the C20 harnesses)
    let mut lexer = Lexer { line: 0, column: 0, rem: &out };
    match lexer.lex_string() {
        Ok(Some(decoded)) => {
            assert!(decoded.as_bytes() == s.as_bytes(), "decodes back to the same character");
            assert!(lexer.rem.is_empty(), "the whole token is consumed");
            core::mem::forget(decoded);
        }
        _ => assert!(false, "the JSON lexer accepts the escaped text"),
    }
    kani::cover!(out.len() == 8, "\\uXXXX escape");
    kani::cover!(out.len() == 4 && out.as_bytes()[1] == b'\\', "two-character escape");
    kani::cover!(out.len() == 6, "raw 4-byte character");
    core::mem::forget(out);
}

// @harness id=c05_escape_json_char props=C05,C01 tier=quick cap=1500
// @desc escape_string_json on a string of one arbitrary Unicode scalar value: the output is a valid RFC 8259 string token (no raw byte < 0x20, no bare quote or backslash, only the nine legal escapes) and the crate's JSON lexer decodes it back to exactly that character
// @bound every Unicode scalar value (1 112 064 values, all UTF-8 widths) in one query; strings of one character; unwind 10
// @funcs manifest::escape_string_json, parse_json::Lexer::lex_string, parse_json::Lexer::eat_char, parse_json::Lexer::eat_any_char
// @out the rendering of the four hex digits by core::fmt (`{:04x}`, trusted std: stubbed by a direct rendering); strings longer than one character (the escaper is a per-character map, so this is the whole of its logic)
#[kani::proof]
#[kani::unwind(10)]
#[kani::stub(core::fmt::write, ks::stub_fmt_write_u_escape)]
fn c05_escape_json_char() {
    let c: char = kani::any();
    escape_one_char_roundtrip(c);
}

// @harness id=c05_escape_must_fail props=C05 tier=quick cap=1500 expect=fail
// @desc vacuity twin of c05_escape_json_char
#[kani::proof]
#[kani::unwind(10)]
#[kani::stub(core::fmt::write, ks::stub_fmt_write_u_escape)]
fn c05_escape_must_fail() {
    let c: char = kani::any();
    kani::assume((c as u32) < 0x80);
    escape_one_char_roundtrip(c);
    assert!(false, "reachability witness");
}
