//! Kani harnesses for the JSON lexer (C20, C01) and for the JSON string escaper
//! round trip through it (C05).
use super::*;
use crate::kani_support as ks;
use crate::program::eval::manifest::escape_string_json;

mod c05;
mod c20;
