//! C20: the JSON lexer against RFC 8259 references (accept set, decoded value,
//! consumed length). The references work on byte arrays and never allocate.
use super::*;

/// Reference result of scanning a JSON string token body (after the opening quote).
pub(super) struct RefString {
    pub(super) ok: bool,
    /// decoded scalar values
    pub(super) out: [u32; 8],
    pub(super) n_out: usize,
    /// bytes consumed including the closing quote
    pub(super) consumed: usize,
}

fn hex_val(b: u8) -> Option<u32> {
    match b {
        b'0'..=b'9' => Some((b - b'0') as u32),
        b'a'..=b'f' => Some((b - b'a') as u32 + 10),
        b'A'..=b'F' => Some((b - b'A') as u32 + 10),
        _ => None,
    }
}

fn ref_hex4(b: &[u8], i: usize) -> Option<u32> {
    if i + 4 > b.len() {
        return None;
    }
    let d0 = hex_val(b[i])?;
    let d1 = hex_val(b[i + 1])?;
    let d2 = hex_val(b[i + 2])?;
    let d3 = hex_val(b[i + 3])?;
    Some((d0 << 12) | (d1 << 8) | (d2 << 4) | d3)
}

/// RFC 8259 section 7 (with the usual pairing rule for \u surrogates: a high
/// surrogate must be followed by an escaped low surrogate; lone surrogates are
/// rejected because the result must be a sequence of Unicode scalar values).
/// `body` must be valid UTF-8 (it comes from a `&str`).
pub(super) fn ref_json_string(body: &[u8]) -> RefString {
    let mut r = RefString { ok: false, out: [0; 8], n_out: 0, consumed: 0 };
    let n = body.len();
    let mut i = 0;
    // at most n characters
    let mut steps = 0;
    while steps <= n {
        steps += 1;
        if i >= n {
            return r; // unterminated
        }
        let c = body[i];
        if c == b'"' {
            r.ok = true;
            r.consumed = i + 1;
            return r;
        }
        if c < 0x20 {
            return r;
        }
        if c == b'\\' {
            if i + 1 >= n {
                return r;
            }
            let e = body[i + 1];
            let v = match e {
                b'"' => 0x22,
                b'\\' => 0x5C,
                b'/' => 0x2F,
                b'b' => 0x08,
                b'f' => 0x0C,
                b'n' => 0x0A,
                b'r' => 0x0D,
                b't' => 0x09,
                b'u' => {
                    let Some(cu1) = ref_hex4(body, i + 2) else { return r };
                    if (0xD800..=0xDBFF).contains(&cu1) {
                        // needs \uDC00..\uDFFF right after
                        if i + 8 <= n && body[i + 6] == b'\\' && body[i + 7] == b'u' {
                            let Some(cu2) = ref_hex4(body, i + 8) else { return r };
                            if !(0xDC00..=0xDFFF).contains(&cu2) {
                                return r;
                            }
                            let v = 0x10000 + ((cu1 - 0xD800) << 10) + (cu2 - 0xDC00);
                            r.out[r.n_out] = v;
                            r.n_out += 1;
                            i += 12;
                            continue;
                        }
                        return r;
                    }
                    if (0xDC00..=0xDFFF).contains(&cu1) {
                        return r;
                    }
                    r.out[r.n_out] = cu1;
                    r.n_out += 1;
                    i += 6;
                    continue;
                }
                _ => return r,
            };
            r.out[r.n_out] = v;
            r.n_out += 1;
            i += 2;
            continue;
        }
        // one UTF-8 encoded scalar value
        let (v, w) = if c < 0x80 {
            (c as u32, 1)
        } else if c < 0xE0 {
            ((((c & 0x1F) as u32) << 6) | (body[i + 1] & 0x3F) as u32, 2)
        } else if c < 0xF0 {
            ((((c & 0x0F) as u32) << 12) | (((body[i + 1] & 0x3F) as u32) << 6) | (body[i + 2] & 0x3F) as u32, 3)
        } else {
            (
                (((c & 0x07) as u32) << 18)
                    | (((body[i + 1] & 0x3F) as u32) << 12)
                    | (((body[i + 2] & 0x3F) as u32) << 6)
                    | (body[i + 3] & 0x3F) as u32,
                4,
            )
        };
        r.out[r.n_out] = v;
        r.n_out += 1;
        i += w;
    }
    r
}

fn check_lex_string(text: &str) {
    let bytes = text.as_bytes();
    let mut lexer = Lexer { line: 0, column: 0, rem: text };
    let got = lexer.lex_string();
    let want = ref_json_string(&bytes[1..]);
    match got {
        Ok(Some(s)) => {
            assert!(want.ok, "accepted only if RFC 8259 accepts");
            assert!(bytes.len() - lexer.rem.len() == want.consumed + 1, "consumed exactly the token");
            let mut k = 0;
            for ch in s.chars() {
                assert!(k < want.n_out && ch as u32 == want.out[k], "decoded character");
                k += 1;
            }
            assert!(k == want.n_out, "decoded length");
            kani::cover!(want.n_out == 0, "empty string");
            kani::cover!(want.n_out >= 1 && want.consumed > 2 && want.out[0] < 0x20, "escape decoded to a control character");
            core::mem::forget(s);
        }
        Ok(None) => assert!(false, "input starts with a quote"),
        Err(e) => {
            assert!(!want.ok, "rejected only if RFC 8259 rejects");
            kani::cover!(true, "rejected");
            core::mem::forget(e);
        }
    }
}

macro_rules! c20_json_string_harness {
    ($name:ident, $n:expr, $unwind:expr) => {
        #[kani::proof]
        #[kani::unwind($unwind)]
        fn $name() {
            const N: usize = $n;
            let mut buf = [0u8; N + 1];
            buf[0] = b'"';
            let body: [u8; N] = kani::any();
            let mut i = 0;
            while i < N {
                buf[i + 1] = body[i];
                i += 1;
            }
            if let Ok(text) = core::str::from_utf8(&buf) {
                check_lex_string(text);
            }
        }
    };
}

// @harness id=c20_json_string_2 props=C20,C01:thorough tier=attempt cap=1500
// @desc parse_json::Lexer::lex_string on a quote followed by every valid-UTF-8 string of 2 bytes: accepted iff RFC 8259 section 7 accepts, decoded characters and consumed length equal the reference decoder's
// @bound 2 arbitrary bytes after the opening quote (single escapes, raw 1-2 byte characters, control characters, unterminated strings)
// @funcs parse_json::Lexer::lex_string, parse_json::Lexer::eat_char, parse_json::Lexer::eat_any_char
c20_json_string_harness!(c20_json_string_2, 2, 6);

// @harness id=c20_json_string_3 props=C20,C01:thorough tier=attempt cap=3600
// @desc parse_json::Lexer::lex_string on a quote followed by every valid-UTF-8 string of 3 bytes: accepted iff RFC 8259 section 7 accepts, decoded characters and consumed length equal the reference decoder's
// @bound 3 arbitrary bytes after the opening quote (all single escapes, raw characters of 1-3 bytes, control characters, unterminated strings)
// @funcs parse_json::Lexer::lex_string, parse_json::Lexer::eat_char, parse_json::Lexer::eat_any_char
c20_json_string_harness!(c20_json_string_3, 3, 8);

// @harness id=c20_json_string_5 props=C20,C01 tier=attempt cap=2700
// @desc c20_json_string_3 with 5 arbitrary bytes (adds 4-byte characters next to escapes)
// @bound 5 arbitrary bytes after the opening quote
// @funcs parse_json::Lexer::lex_string
c20_json_string_harness!(c20_json_string_5, 5, 10);

// @harness id=c20_json_string_uescape props=C20,C01:thorough tier=attempt cap=1500
// @desc lex_string on `"\uXXXX"` and `"\uXXXX\uYYYY"` with arbitrary bytes in the eight X/Y positions: hex decoding, surrogate pairing and rejection of lone or mismatched surrogates equal the reference
// @bound templates of 8 and 14 bytes with 4 / 8 arbitrary bytes
// @funcs parse_json::Lexer::lex_string
#[kani::proof]
#[kani::unwind(16)]
fn c20_json_string_uescape() {
    let x: [u8; 4] = kani::any();
    let y: [u8; 4] = kani::any();
    let pair: bool = kani::any();
    if pair {
        let buf = [b'"', b'\\', b'u', x[0], x[1], x[2], x[3], b'\\', b'u', y[0], y[1], y[2], y[3], b'"'];
        if let Ok(text) = core::str::from_utf8(&buf) {
            check_lex_string(text);
        }
    } else {
        let buf = [b'"', b'\\', b'u', x[0], x[1], x[2], x[3], b'"'];
        if let Ok(text) = core::str::from_utf8(&buf) {
            check_lex_string(text);
        }
    }
}

/// RFC 8259 section 6 number grammar as a DFA over bytes; returns the length of
/// the longest prefix that is a number token when the lexer would accept, or
/// Err(()) when the text starts like a number but is malformed at the point the
/// grammar forces (e.g. "-", "01", "1.", "1e").
fn ref_json_number(b: &[u8]) -> Result<usize, ()> {
    let n = b.len();
    let mut i = 0;
    if i < n && b[i] == b'-' {
        i += 1;
        if !(i < n && b[i].is_ascii_digit()) {
            return Err(());
        }
    }
    if !(i < n && b[i].is_ascii_digit()) {
        return Ok(0); // not a number at all
    }
    if b[i] == b'0' {
        i += 1;
        if i < n && b[i].is_ascii_digit() {
            return Err(()); // leading zero
        }
    } else {
        while i < n && b[i].is_ascii_digit() {
            i += 1;
        }
    }
    if i < n && b[i] == b'.' {
        i += 1;
        if !(i < n && b[i].is_ascii_digit()) {
            return Err(());
        }
        while i < n && b[i].is_ascii_digit() {
            i += 1;
        }
    }
    if i < n && (b[i] == b'e' || b[i] == b'E') {
        i += 1;
        if i < n && (b[i] == b'+' || b[i] == b'-') {
            i += 1;
        }
        if !(i < n && b[i].is_ascii_digit()) {
            return Err(());
        }
        while i < n && b[i].is_ascii_digit() {
            i += 1;
        }
    }
    Ok(i)
}

fn stub_parse_f64(_s: &str) -> Result<f64, core::num::ParseFloatError> {
    // the *value* comes from Rust's dec2flt (trusted std); any finite or infinite double may come back
    let x: f64 = kani::any();
    kani::assume(!x.is_nan());
    Ok(x)
}

// @harness id=c20_json_number_5 props=C20,C06,C01 tier=thorough cap=2400 mem=40
// @desc parse_json::Lexer::lex_number on every ASCII string of 5 bytes: the accepted prefix is exactly the longest RFC 8259 section 6 number token, malformed numbers (-, leading zeros incl. after a minus sign, missing fraction or exponent digits) are errors, and Ok(Some(x)) implies x is finite
// @bound 5 arbitrary ASCII bytes; the decimal-to-double conversion (str::parse::<f64>) is stubbed by an arbitrary non-NaN double
// @funcs parse_json::Lexer::lex_number, parse_json::Lexer::eat_digit_0_9, parse_json::Lexer::eat_digit_1_9
// @out correct rounding of str::parse::<f64> (Rust dec2flt, trusted)
#[kani::proof]
#[kani::unwind(8)]
#[kani::stub(<f64 as core::str::FromStr>::from_str, stub_parse_f64)]
fn c20_json_number_5() {
    let buf: [u8; 5] = kani::any();
    kani::assume(buf[0] < 0x80 && buf[1] < 0x80 && buf[2] < 0x80 && buf[3] < 0x80 && buf[4] < 0x80);
    let text = core::str::from_utf8(&buf).unwrap();
    let mut lexer = Lexer { line: 0, column: 0, rem: text };
    let got = lexer.lex_number();
    let want = ref_json_number(&buf);
    match got {
        Ok(Some(x)) => {
            assert!(x.is_finite(), "a parsed JSON number is finite");
            assert!(want.is_ok() && want.unwrap() > 0, "accepted only well-formed numbers");
            assert!(buf.len() - lexer.rem.len() == want.unwrap(), "consumed the longest number token");
            kani::cover!(want.unwrap() == 5 && buf[0] == b'-', "5-byte negative number");
        }
        Ok(None) => {
            assert!(want == Ok(0), "no number at this position");
            assert!(lexer.rem.len() == 5, "nothing consumed");
        }
        Err(e) => {
            // malformed, or the (stubbed) conversion overflowed
            kani::cover!(want.is_err(), "malformed number rejected");
            kani::cover!(want.is_ok(), "overflow rejected");
            assert!(want != Ok(0), "an error needs at least a number-like prefix");
            core::mem::forget(e);
        }
    }
}

// @harness id=c20_json_number_4 props=C20,C06:thorough,C01:thorough tier=quick cap=1500
// @desc as c20_json_number_5 on every ASCII string of 4 bytes (long enough for a sign, a leading zero, a fraction point or an exponent marker with its digit: -0.5, 1e+1, -01x are 4 bytes or fewer)
// @bound 4 arbitrary ASCII bytes; the decimal-to-double conversion (str::parse::<f64>) is stubbed by an arbitrary non-NaN double
// @funcs parse_json::Lexer::lex_number, parse_json::Lexer::eat_digit_0_9, parse_json::Lexer::eat_digit_1_9
// @out correct rounding of str::parse::<f64> (Rust dec2flt, trusted)
#[kani::proof]
#[kani::unwind(7)]
#[kani::stub(<f64 as core::str::FromStr>::from_str, stub_parse_f64)]
fn c20_json_number_4() {
    let buf: [u8; 4] = kani::any();
    kani::assume(buf[0] < 0x80 && buf[1] < 0x80 && buf[2] < 0x80 && buf[3] < 0x80);
    let text = core::str::from_utf8(&buf).unwrap();
    let mut lexer = Lexer { line: 0, column: 0, rem: text };
    let got = lexer.lex_number();
    let want = ref_json_number(&buf);
    match got {
        Ok(Some(x)) => {
            assert!(x.is_finite(), "a parsed JSON number is finite");
            assert!(want.is_ok() && want.unwrap() > 0, "accepted only well-formed numbers");
            assert!(buf.len() - lexer.rem.len() == want.unwrap(), "consumed the longest number token");
            kani::cover!(want.unwrap() == 4 && buf[0] == b'-', "4-byte negative number");
        }
        Ok(None) => {
            assert!(want == Ok(0), "no number at this position");
            assert!(lexer.rem.len() == 4, "nothing consumed");
        }
        Err(e) => {
            kani::cover!(want.is_err(), "malformed number rejected");
            kani::cover!(want.is_ok(), "overflow rejected");
            assert!(want != Ok(0), "an error needs at least a number-like prefix");
            core::mem::forget(e);
        }
    }
}
