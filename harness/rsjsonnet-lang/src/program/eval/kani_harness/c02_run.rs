//! C02 (core language semantics), C04 (laziness of the short-circuit operators and of argument binding), C18
//! (string indexing by code point): single iterations of the REAL `Evaluator::run` loop on the arms whose logic is
//! written inline in `run()` (`If`, `LogicAnd`, `LogicOr`, `UnaryOp`, `Index`, `Assert`, the comprehension
//! bookkeeping), and parameter binding at its Rust entry point. Same recipe as c08.rs (generated panicking stubs for
//! every delegated method, concrete state variant per case, `run@first:1`, `fs=4096`).
use super::*;
use super::super::{run_stubs_all, run_stubs_call};

fn is_stack_overflow(r: &EvalResult<()>) -> bool {
    matches!(r, Err(e) if matches!(e.kind, EvalErrorKind::StackOverflow))
}

fn a_span<'p>(program: &mut Program<'p>) -> SpanId {
    let ctx = crate::span::SpanContextId::kani_zero();
    program.span_mgr.intern_span(ctx, 0, 0)
}

fn empty_env<'p>() -> GcView<ThunkEnv<'p>> {
    let env = GcView::kani_unmanaged(ThunkEnv::new());
    env.set_data(ThunkEnvData::new(None));
    env
}

// ---------------------------------------------------------------------------------------------------
// if / && / ||
// ---------------------------------------------------------------------------------------------------

/// cond: 0 = true, 1 = false, 2 = a number (not a boolean); has_else
fn if_case(cond: u8, has_else: bool) {
    let arena = Arena::new();
    let mut program = bare_program(&arena);
    program.max_stack = 0;
    let span = a_span(&mut program);
    let env = empty_env();
    let then_body: &ir::Expr<'_> = arena.alloc(ir::Expr::Bool(true));
    let else_body: &ir::Expr<'_> = arena.alloc(ir::Expr::Bool(false));
    let mut ev = bare_evaluator(&mut program);
    ev.stack_trace_len = 1;
    ev.value_stack.push(match cond {
        0 => ValueData::Bool(true),
        1 => ValueData::Bool(false),
        _ => ValueData::Number(any_finite()),
    });
    ev.state_stack.push(State::If {
        cond_span: span,
        then_body,
        else_body: if has_else { Some(else_body) } else { None },
        env: env.clone(),
    });
    let r = ev.run();
    match cond {
        0 => {
            assert!(is_stack_overflow(&r), "the step ran");
            assert!(ev.value_stack.is_empty());
            assert!(ev.state_stack.len() == 1 && matches!(&ev.state_stack[0], State::Expr { expr: ir::Expr::Bool(true), env: e } if e.kani_same(&env)),
                    "true: exactly the then-branch is scheduled, in the same environment");
        }
        1 if has_else => {
            assert!(is_stack_overflow(&r));
            assert!(ev.value_stack.is_empty());
            assert!(ev.state_stack.len() == 1 && matches!(&ev.state_stack[0], State::Expr { expr: ir::Expr::Bool(false), env: e } if e.kani_same(&env)),
                    "false: exactly the else-branch is scheduled");
        }
        1 => {
            assert!(is_stack_overflow(&r));
            assert!(ev.state_stack.is_empty(), "no branch is evaluated");
            assert!(ev.value_stack.len() == 1 && matches!(&ev.value_stack[0], ValueData::Null), "if without else yields null");
        }
        _ => {
            assert!(matches!(&r, Err(e) if matches!(e.kind, EvalErrorKind::CondIsNotBool { .. })), "a non-boolean condition is an error");
            assert!(ev.state_stack.is_empty(), "neither branch is evaluated");
        }
    }
    core::mem::forget(r);
    core::mem::forget(ev);
    core::mem::forget(program);
    core::mem::forget(env);
}

// @harness id=c02_if_step props=C02,C04 tier=quick cap=1200 unwindset=9Evaluator3run@first:1
// @desc one iteration of the real Evaluator::run on If per case: condition true schedules exactly the then-branch (same environment), false schedules exactly the else-branch, false without else yields null and evaluates nothing, a non-boolean condition is the CondIsNotBool error and neither branch is evaluated (the branch not taken is never evaluated: laziness of if)
// @bound one loop iteration per case; 5 cases
// @funcs Evaluator::run (arm State::If)
run_stubs_all! {
#[kani::proof]
#[kani::unwind(4)]
fn c02_if_step() {
    if_case(0, true);
    kani::cover!(true, "then");
    if_case(1, true);
    kani::cover!(true, "else");
    if_case(1, false);
    kani::cover!(true, "no else: null");
    if_case(0, false);
    kani::cover!(true, "then, no else");
    if_case(2, true);
    kani::cover!(true, "not a boolean");
}
}

/// is_and; lhs: 0 = false, 1 = true, 2 = number
fn logic_case(is_and: bool, lhs: u8) {
    let arena = Arena::new();
    let mut program = bare_program(&arena);
    program.max_stack = 0;
    let span = a_span(&mut program);
    let env = empty_env();
    let rhs: &ir::Expr<'_> = arena.alloc(ir::Expr::Null);
    let mut ev = bare_evaluator(&mut program);
    ev.stack_trace_len = 1;
    ev.value_stack.push(match lhs {
        0 => ValueData::Bool(false),
        1 => ValueData::Bool(true),
        _ => ValueData::Number(any_finite()),
    });
    ev.state_stack.push(if is_and {
        State::LogicAnd { span, rhs, env: env.clone() }
    } else {
        State::LogicOr { span, rhs, env: env.clone() }
    });
    let r = ev.run();
    assert!(is_stack_overflow(&r), "the step ran");
    let short = (is_and && lhs == 0) || (!is_and && lhs == 1);
    if short {
        assert!(ev.state_stack.is_empty(), "short circuit: the right operand is never evaluated");
        assert!(ev.value_stack.len() == 1 && matches!(&ev.value_stack[0], ValueData::Bool(b) if *b == !is_and), "the left operand decides");
    } else {
        assert!(ev.value_stack.len() == 1, "the left operand stays for the operator");
        assert!(ev.state_stack.len() == 2);
        let want = if is_and { ast::BinaryOp::LogicAnd } else { ast::BinaryOp::LogicOr };
        assert!(matches!(&ev.state_stack[0], State::BinaryOp { op, .. } if *op == want), "then the operator itself (which checks the types)");
        assert!(matches!(&ev.state_stack[1], State::Expr { expr: ir::Expr::Null, env: e } if e.kani_same(&env)), "first the right operand, in the same environment");
    }
    core::mem::forget(r);
    core::mem::forget(ev);
    core::mem::forget(program);
    core::mem::forget(env);
}

// @harness id=c02_logic_short_circuit props=C02,C04 tier=quick cap=1200 unwindset=9Evaluator3run@first:1
// @desc one iteration of the real Evaluator::run on LogicAnd / LogicOr per case: false && e is false and true || e is true WITHOUT scheduling e (the right operand is never evaluated, so it may fail or diverge); in every other case (including a non-boolean left operand) the right operand is scheduled in the same environment followed by the binary operator, which checks the types
// @bound one loop iteration per case; 6 cases
// @funcs Evaluator::run (arms State::LogicAnd, State::LogicOr)
run_stubs_all! {
#[kani::proof]
#[kani::unwind(4)]
fn c02_logic_short_circuit() {
    logic_case(true, 0);
    kani::cover!(true, "false && _");
    logic_case(true, 1);
    kani::cover!(true, "true && e");
    logic_case(true, 2);
    kani::cover!(true, "number && e");
    logic_case(false, 1);
    kani::cover!(true, "true || _");
    logic_case(false, 0);
    kani::cover!(true, "false || e");
    logic_case(false, 2);
    kani::cover!(true, "number || e");
}
}

// ---------------------------------------------------------------------------------------------------
// unary operators
// ---------------------------------------------------------------------------------------------------

/// op: 0 `-`, 1 `+`, 2 `~`, 3 `!`; operand: 0 number, 1 boolean, 2 null
fn unary_case(op: u8, operand: u8) {
    let arena = Arena::new();
    let mut program = bare_program(&arena);
    program.max_stack = 0;
    let span = a_span(&mut program);
    let x = any_finite();
    let b: bool = kani::any();
    let mut ev = bare_evaluator(&mut program);
    ev.stack_trace_len = 1;
    ev.value_stack.push(match operand {
        0 => ValueData::Number(x),
        1 => ValueData::Bool(b),
        _ => ValueData::Null,
    });
    let the_op = match op {
        0 => ast::UnaryOp::Minus,
        1 => ast::UnaryOp::Plus,
        2 => ast::UnaryOp::BitwiseNot,
        _ => ast::UnaryOp::LogicNot,
    };
    ev.state_stack.push(State::UnaryOp { span, op: the_op });
    let r = ev.run();
    let top = ev.value_stack.last();
    match (op, operand) {
        (0, 0) => {
            assert!(is_stack_overflow(&r));
            assert!(matches!(top, Some(ValueData::Number(y)) if y.to_bits() == (-x).to_bits()), "-x is the IEEE negation (finite stays finite)");
        }
        (1, 0) => {
            assert!(is_stack_overflow(&r));
            assert!(matches!(top, Some(ValueData::Number(y)) if y.to_bits() == x.to_bits()), "+x is x");
        }
        (2, 0) => {
            // ~x is defined on safe integers: -(2^53-1) ..= 2^53-1; x is truncated first
            let safe = x.trunc() >= -9007199254740991.0 && x.trunc() <= 9007199254740991.0;
            if safe {
                assert!(is_stack_overflow(&r));
                let i = x.trunc() as i64;
                assert!(matches!(top, Some(ValueData::Number(y)) if *y == (!i) as f64), "~x = -x-1 on the integer value of x");
                kani::cover!(x < 0.0, "~ of a negative number");
            } else {
                assert!(r.is_err() && !is_stack_overflow(&r), "~ of a number outside the safe-integer range is an error");
                kani::cover!(true, "~ out of range");
            }
        }
        (3, 1) => {
            assert!(is_stack_overflow(&r));
            assert!(matches!(top, Some(ValueData::Bool(y)) if *y == !b), "!b");
        }
        _ => {
            assert!(matches!(&r, Err(e) if matches!(e.kind, EvalErrorKind::InvalidUnaryOpType { .. })), "wrong operand type is the InvalidUnaryOpType error");
        }
    }
    if r.is_err() && is_stack_overflow(&r) {
        assert!(ev.value_stack.len() == 1, "one operand in, one result out");
    }
    core::mem::forget(r);
    core::mem::forget(ev);
    core::mem::forget(program);
}

// @harness id=c02_unary_ops props=C02,C06:thorough,C01:thorough tier=quick cap=1500 unwindset=9Evaluator3run@first:1
// @desc one iteration of the real Evaluator::run on UnaryOp per case: -x and +x on any finite number (bit-exact), ~x on any finite number (defined exactly on the safe-integer range after truncation, value -x-1, otherwise an error), !b on any boolean, and the InvalidUnaryOpType error for - on a boolean, ! on a number, ~ on null, + on null
// @bound one loop iteration per case; 8 cases; all finite doubles
// @funcs Evaluator::run (arm State::UnaryOp), Evaluator::safe_f64_to_i64
run_stubs_all! {
#[kani::proof]
#[kani::unwind(4)]
fn c02_unary_ops() {
    unary_case(0, 0);
    unary_case(1, 0);
    unary_case(2, 0);
    unary_case(3, 1);
    unary_case(0, 1);
    kani::cover!(true, "- on a boolean");
    unary_case(3, 0);
    kani::cover!(true, "! on a number");
    unary_case(2, 2);
    kani::cover!(true, "~ on null");
    unary_case(1, 2);
    kani::cover!(true, "+ on null");
}
}

// ---------------------------------------------------------------------------------------------------
// indexing
// ---------------------------------------------------------------------------------------------------

/// mode: 0 = index 0, 1 = index 1, 2 = index -0, 3.. = representatives of the invalid classes: -1, 0.5, 2, 1e300, 2^64
/// (the classification of ALL doubles by float::try_to_usize_exact is decided by c01_float_to_int_contracts)
fn index_string_case(mode: u8) {
    let arena = Arena::new();
    let mut program = bare_program(&arena);
    program.max_stack = 0;
    let span = a_span(&mut program);
    // a string of two arbitrary characters of any UTF-8 width
    let c0: char = kani::any();
    let c1: char = kani::any();
    let mut s0 = String::with_capacity(8);
    s0.push(c0);
    s0.push(c1);
    let s: Rc<str> = s0.into();
    let keep = s.clone();
    let idx = match mode {
        0 => 0.0,
        1 => 1.0,
        2 => -0.0,
        3 => -1.0,
        4 => 0.5,
        5 => 2.0,
        6 => 1e300,
        _ => 18446744073709551616.0,
    };
    let mut ev = bare_evaluator(&mut program);
    ev.stack_trace_len = 1;
    ev.value_stack.push(ValueData::String(s));
    ev.value_stack.push(ValueData::Number(idx));
    ev.state_stack.push(State::Index { span });
    let r = ev.run();
    if idx == 0.0 || idx == 1.0 {
        assert!(is_stack_overflow(&r), "a valid index is not an error");
        let want = if idx == 0.0 { c0 } else { c1 };
        let mut buf = [0u8; 4];
        let w = want.encode_utf8(&mut buf);
        assert!(ev.value_stack.len() == 1 && matches!(&ev.value_stack[0], ValueData::String(t) if t.as_bytes() == w.as_bytes()),
                "s[i] is the i-th CHARACTER as a one-character string, whatever the UTF-8 widths");
        kani::cover!(idx == 1.0 && c0.len_utf8() == 4 && c1.len_utf8() == 2, "second character after a 4-byte one");
        kani::cover!(idx.to_bits() == (-0.0f64).to_bits(), "index -0");
    } else if mode == 5 || mode == 7 {
        assert!(matches!(&r, Err(e) if matches!(e.kind, EvalErrorKind::NumericIndexOutOfRange { length: 2, .. })), "index >= length: out of range, length counted in characters");
        kani::cover!(c0.len_utf8() + c1.len_utf8() > 2, "out of range on a string with more bytes than characters");
    } else {
        assert!(matches!(&r, Err(e) if matches!(e.kind, EvalErrorKind::NumericIndexIsNotValid { .. })), "negative, fractional or unrepresentable index is not valid");
        kani::cover!(mode == 3, "negative index");
        kani::cover!(mode == 4, "fractional index");
        kani::cover!(mode == 6, "index beyond usize");
    }
    core::mem::forget(r);
    core::mem::forget(ev);
    core::mem::forget(program);
    core::mem::forget(keep);
}

// @harness id=c18_index_string props=C18,C02:thorough,C01:thorough tier=attempt cap=1500 unwindset=9Evaluator3run@first:1
// @desc one iteration of the real Evaluator::run on Index over a string of two ARBITRARY characters (every UTF-8 width at both positions), index 0, 1, -0 and representatives of every invalid class (-1, 0.5, 2, 1e300, 2^64; the classification of all doubles is c01_float_to_int_contracts): index 0 / 1 (including -0) gives that character as a one-character string; an integral index >= 2 is NumericIndexOutOfRange with length 2 (characters, not bytes); a negative or fractional index is NumericIndexIsNotValid; never a panic
// @bound one loop iteration; strings of exactly 2 characters (2..8 bytes); all finite doubles as index
// @funcs Evaluator::run (arm State::Index), float::try_to_usize_exact, ValueData::from_char
run_stubs_all! {
#[kani::proof]
#[kani::unwind(10)]
fn c18_index_string() {
    index_string_case(0);
    index_string_case(1);
    index_string_case(2);
    index_string_case(3);
    index_string_case(4);
    index_string_case(5);
    index_string_case(6);
    index_string_case(7);
}
}

/// done: whether the items are already evaluated; mode 0..=2 = that index, 3.. = -1, 1.5, 3, 1e300; 7 = -0 (is index 0)
fn index_array_case(done: bool, mode: u8) {
    let arena = Arena::new();
    let mut program = bare_program(&arena);
    program.max_stack = 0;
    let span = a_span(&mut program);
    let env = GcView::kani_unmanaged(ThunkEnv::new());
    let vals: [f64; 3] = [any_finite(), any_finite(), any_finite()];
    let null_expr: &ir::Expr<'_> = arena.alloc(ir::Expr::Null);
    let items: [GcView<ThunkData<'_>>; 3] = core::array::from_fn(|i| {
        if done {
            done_thunk(ValueData::Number(vals[i]))
        } else {
            GcView::kani_unmanaged(ThunkData::new_pending_expr(null_expr, Gc::from(&env)))
        }
    });
    let arr: GcView<ArrayData<'_>> = GcView::kani_unmanaged(items.iter().map(Gc::from).collect::<Vec<_>>().into_boxed_slice());
    let idx = match mode {
        0 => 0.0,
        1 => 1.0,
        2 => 2.0,
        3 => -1.0,
        4 => 1.5,
        5 => 3.0,
        7 => -0.0,
        _ => 1e300,
    };
    let mut ev = bare_evaluator(&mut program);
    ev.stack_trace_len = 1;
    ev.value_stack.push(ValueData::Array(Gc::from(&arr)));
    ev.value_stack.push(ValueData::Number(idx));
    ev.state_stack.push(State::Index { span });
    let r = ev.run();
    if mode < 3 || mode == 7 {
        let i = if mode == 7 { 0 } else { mode as usize };
        assert!(is_stack_overflow(&r), "a valid index (-0 is 0) is not an error");
        if done {
            assert!(ev.state_stack.is_empty(), "an evaluated item is used directly");
            assert!(ev.value_stack.len() == 1 && matches!(&ev.value_stack[0], ValueData::Number(y)
                    if y.to_bits() == vals[i].to_bits()), "a[i] is the i-th item");
        } else {
            assert!(ev.value_stack.is_empty());
            assert!(ev.state_stack.len() == 2, "a pending item is forced inside a counted frame");
            assert!(matches!(&ev.state_stack[0], State::TraceItem(TraceItem::ArrayItem { index, .. }) if *index == i));
            assert!(matches!(&ev.state_stack[1], State::DoThunk(t) if t.kani_same(&items[i])), "exactly the i-th item is forced, no other");
        }
    } else if mode == 5 {
        assert!(matches!(&r, Err(e) if matches!(e.kind, EvalErrorKind::NumericIndexOutOfRange { length: 3, .. })), "index >= length");
    } else {
        assert!(matches!(&r, Err(e) if matches!(e.kind, EvalErrorKind::NumericIndexIsNotValid { .. })), "negative, fractional or unrepresentable index");
    }
    core::mem::forget(r);
    core::mem::forget(ev);
    core::mem::forget(program);
    core::mem::forget((arr, items, env));
}

/// object kind: 0 string, 1 array, 2 number, 3 null; index kind: 0 string "a", 1 null
fn index_type_error_case(obj: u8, idx: u8) {
    let arena = Arena::new();
    let mut program = bare_program(&arena);
    program.max_stack = 0;
    let span = a_span(&mut program);
    let mut ev = bare_evaluator(&mut program);
    ev.stack_trace_len = 1;
    let arr: GcView<ArrayData<'_>> = GcView::kani_unmanaged(Box::new([]));
    ev.value_stack.push(match obj {
        0 => ValueData::String("ab".into()),
        1 => ValueData::Array(Gc::from(&arr)),
        2 => ValueData::Number(any_finite()),
        _ => ValueData::Null,
    });
    ev.value_stack.push(match idx {
        0 => ValueData::String("a".into()),
        _ => ValueData::Null,
    });
    ev.state_stack.push(State::Index { span });
    let r = ev.run();
    let ok = match obj {
        0 => matches!(&r, Err(e) if matches!(e.kind, EvalErrorKind::StringIndexIsNotNumber { .. })),
        1 => matches!(&r, Err(e) if matches!(e.kind, EvalErrorKind::ArrayIndexIsNotNumber { .. })),
        _ => matches!(&r, Err(e) if matches!(e.kind, EvalErrorKind::InvalidIndexedType { .. })),
    };
    assert!(ok, "indexing with the wrong index type / into a non-indexable value is the specific error");
    assert!(ev.state_stack.is_empty() && ev.value_stack.is_empty());
    core::mem::forget(r);
    core::mem::forget(ev);
    core::mem::forget(program);
    core::mem::forget(arr);
}

// @harness id=c02_index_array_items props=C02:thorough,C04:thorough,C01:thorough tier=thorough cap=1500 unwindset=9Evaluator3run@first:1
// @desc one iteration of the real Evaluator::run on Index over a 3-element array: index 0 (and -0, which is the same number) of an evaluated array gives that item's value directly; index 1 of a pending array forces exactly that item - no other - inside a counted ArrayItem frame
// @bound one loop iteration per case; arrays of length 3
// @funcs Evaluator::run (arm State::Index), Evaluator::want_thunk_direct, float::try_to_usize_exact
run_stubs_all! {
#[kani::proof]
#[kani::unwind(5)]
fn c02_index_array_items() {
    index_array_case(true, 0);
    kani::cover!(true, "evaluated item used directly");
    index_array_case(false, 1);
    kani::cover!(true, "pending item forced");
    index_array_case(true, 7);
    kani::cover!(true, "index -0 selects item 0");
}
}

// @harness id=c02_index_array_zero props=C02,C04:thorough,C01:thorough tier=quick cap=1500 unwindset=9Evaluator3run@first:1
// @desc one iteration of the real Evaluator::run on Index over an evaluated 3-element array with index -0 (the same number as 0): item 0's value directly, nothing is scheduled (index 0, 1, 2 and the error classes: c02_index_array_items / _errors, thorough)
// @bound one loop iteration per case; arrays of length 3
// @funcs Evaluator::run (arm State::Index), Evaluator::want_thunk_direct, float::try_to_usize_exact
run_stubs_all! {
#[kani::proof]
#[kani::unwind(5)]
fn c02_index_array_zero() {
    index_array_case(true, 7);
    kani::cover!(true, "index -0 selects item 0");
}
}

// @harness id=c02_index_array_errors props=C02,C01:thorough tier=thorough cap=1500 unwindset=9Evaluator3run@first:1
// @desc one iteration of the real Evaluator::run on Index per case: index 3 on a 3-element array is NumericIndexOutOfRange with length 3; index -1 is NumericIndexIsNotValid; array[null] and number[string] are the specific type errors (the classification of ALL doubles by float::try_to_usize_exact is decided by c01_float_to_int_contracts)
// @bound one loop iteration per case
// @funcs Evaluator::run (arm State::Index), float::try_to_usize_exact
run_stubs_all! {
#[kani::proof]
#[kani::unwind(5)]
fn c02_index_array_errors() {
    index_array_case(true, 5);
    index_array_case(true, 3);
    index_type_error_case(1, 1);
    kani::cover!(true, "array[null]");
    index_type_error_case(2, 0);
    kani::cover!(true, "number[string]");
}
}

// @harness id=c02_index_array_more props=C02,C01 tier=attempt cap=1800 unwindset=9Evaluator3run@first:1
// @desc further cases of c02_index_array: last index of an evaluated array, fractional index 1.5, index 1e300 (not representable as usize), out-of-range index on a pending array (no item is forced), string[string], null[null]
// @bound one loop iteration per case; arrays of length 3
// @funcs Evaluator::run (arm State::Index), Evaluator::want_thunk_direct, float::try_to_usize_exact
run_stubs_all! {
#[kani::proof]
#[kani::unwind(5)]
fn c02_index_array_more() {
    index_array_case(true, 2);
    kani::cover!(true, "last index");
    index_array_case(true, 4);
    index_array_case(true, 6);
    kani::cover!(true, "index beyond usize");
    index_array_case(false, 5);
    index_type_error_case(0, 0);
    kani::cover!(true, "string[string]");
    index_type_error_case(3, 1);
    kani::cover!(true, "null[null]");
}
}

// ---------------------------------------------------------------------------------------------------
// assert
// ---------------------------------------------------------------------------------------------------

/// cond: 0 true, 1 false, 2 null; has_msg
fn assert_case(cond: u8, has_msg: bool) {
    let arena = Arena::new();
    let mut program = bare_program(&arena);
    program.max_stack = 0;
    let span = a_span(&mut program);
    let env = empty_env();
    let msg: &ir::Expr<'_> = arena.alloc(ir::Expr::String("m"));
    let mut ev = bare_evaluator(&mut program);
    ev.stack_trace_len = 1;
    ev.value_stack.push(match cond {
        0 => ValueData::Bool(true),
        1 => ValueData::Bool(false),
        _ => ValueData::Null,
    });
    ev.state_stack.push(State::Assert {
        assert_span: span,
        cond_span: span,
        msg_expr: if has_msg { Some((msg, env.clone())) } else { None },
    });
    let r = ev.run();
    match cond {
        0 => {
            assert!(is_stack_overflow(&r));
            assert!(ev.state_stack.is_empty() && ev.value_stack.is_empty(), "a true assertion does nothing - in particular the message is not evaluated");
        }
        1 if has_msg => {
            assert!(is_stack_overflow(&r));
            assert!(ev.state_stack.len() == 3);
            assert!(matches!(&ev.state_stack[0], State::AssertMsg { .. }), "finally fails with the message");
            assert!(matches!(&ev.state_stack[1], State::CoerceToString), "converted to a string");
            assert!(matches!(&ev.state_stack[2], State::Expr { expr: ir::Expr::String("m"), env: e } if e.kani_same(&env)), "first the message is evaluated");
        }
        1 => {
            assert!(matches!(&r, Err(e) if matches!(e.kind, EvalErrorKind::AssertFailed { message: None, .. })), "a false assertion fails");
        }
        _ => {
            assert!(matches!(&r, Err(e) if matches!(e.kind, EvalErrorKind::CondIsNotBool { .. })), "a non-boolean condition is an error");
        }
    }
    core::mem::forget(r);
    core::mem::forget(ev);
    core::mem::forget(program);
    core::mem::forget(env);
}

// @harness id=c02_assert_step props=C02,C04 tier=quick cap=1200 unwindset=9Evaluator3run@first:1
// @desc one iteration of the real Evaluator::run on Assert per case: true does nothing (the message is not evaluated); false without message fails with AssertFailed; false with a message schedules the message, its coercion to a string, then the failure; a non-boolean condition is CondIsNotBool. AssertMsg always fails with the message computed
// @bound one loop iteration per case; 5 cases
// @funcs Evaluator::run (arms State::Assert, State::AssertMsg)
run_stubs_all! {
#[kani::proof]
#[kani::unwind(7)]
fn c02_assert_step() {
    assert_case(0, true);
    kani::cover!(true, "holds");
    assert_case(1, false);
    kani::cover!(true, "fails, no message");
    assert_case(1, true);
    kani::cover!(true, "fails, message scheduled");
    assert_case(2, false);
    kani::cover!(true, "not a boolean");
    // AssertMsg
    let arena = Arena::new();
    let mut program = bare_program(&arena);
    program.max_stack = 0;
    let span = a_span(&mut program);
    let mut ev = bare_evaluator(&mut program);
    ev.stack_trace_len = 1;
    ev.string_stack.push(String::from("boom"));
    ev.state_stack.push(State::AssertMsg { assert_span: span });
    let r = ev.run();
    assert!(matches!(&r, Err(e) if matches!(&e.kind, EvalErrorKind::AssertFailed { message: Some(m), .. } if m.as_bytes() == b"boom")), "the failure carries the computed message");
    kani::cover!(true, "AssertMsg");
    core::mem::forget(r);
    core::mem::forget(ev);
    core::mem::forget(program);
}
}

// ---------------------------------------------------------------------------------------------------
// parameter binding (direct call of the real binder)
// ---------------------------------------------------------------------------------------------------

/// Only the discriminant matters to the oracle.
fn clone_kind(k: &EvalErrorKind) -> EvalErrorKind {
    match k {
        EvalErrorKind::TooManyCallArgs { .. } => EvalErrorKind::TooManyCallArgs { span: None, num_params: 0 },
        EvalErrorKind::UnknownCallParam { .. } => EvalErrorKind::UnknownCallParam { span: None, param_name: String::new() },
        EvalErrorKind::RepeatedCallParam { .. } => EvalErrorKind::RepeatedCallParam { span: None, param_name: String::new() },
        EvalErrorKind::CallParamNotBound { .. } => EvalErrorKind::CallParamNotBound { span: None, param_name: String::new() },
        _ => EvalErrorKind::StackOverflow,
    }
}

impl<'p> Evaluator<'_, 'p> {
    /// Stub for `Evaluator::execute_call` in the parameter-binding harnesses: records the bound arguments.
    pub(in crate::program) fn kstub_execute_call_record(&mut self, _func: &FuncData<'p>, args: Box<[Gc<ThunkData<'p>>]>) {
        self.array_stack.push(Vec::from(args));
    }
}

/// Function `f(x, y, z = <default>)` is called with `npos` positional arguments (distinct thunks) and two named
/// arguments whose names are symbolic among {x, y, z, w} (w is not a parameter); `nnamed` of them are passed.
fn binding_case<const NPOS: usize, const NNAMED: usize>() {
    binding_case_names::<NPOS, NNAMED>(None)
}

/// `fixed`: the (indexes of the) names of the two named arguments among [x, y, z, w]; None = ANY
fn binding_case_names<const NPOS: usize, const NNAMED: usize>(fixed: Option<(u8, u8)>) {
    let arena = Arena::new();
    let mut program = bare_program(&arena);
    let names = [
        program.str_interner.intern(&arena, "x"),
        program.str_interner.intern(&arena, "y"),
        program.str_interner.intern(&arena, "z"),
        program.str_interner.intern(&arena, "w"),
    ];
    let default_z: &ir::Expr<'_> = arena.alloc(ir::Expr::Bool(true));
    let params: &[(InternedStr<'_>, Option<&ir::Expr<'_>>)] =
        arena.alloc_slice(&[(names[0], None), (names[1], None), (names[2], Some(default_z))]);
    let func = FuncData::new(params, FuncKind::Identity { name: None });
    // distinct, already evaluated argument thunks: position p carries 10 + p, named argument k carries 20 + k
    let pos: [GcView<ThunkData<'_>>; NPOS] = core::array::from_fn(|p| done_thunk(ValueData::Number(10.0 + p as f64)));
    let (n0, n1): (u8, u8) = match fixed {
        Some(f) => f,
        None => (kani::any(), kani::any()),
    };
    kani::assume(n0 < 4 && n1 < 4);
    let named_all = [
        (names[n0 as usize], done_thunk(ValueData::Number(20.0))),
        (names[n1 as usize], done_thunk(ValueData::Number(21.0))),
    ];
    let named = &named_all[..NNAMED];
    let nn = [n0 as usize, n1 as usize];
    let mut ev = bare_evaluator(&mut program);
    // the binder itself is private to `eval::call`; it is entered through its caller, with `execute_call` replaced by
    // a stub that records the bound argument vector on `array_stack`
    let r0 = ev.check_thunk_args_and_execute_call(&func, &pos, named, None);
    let r: EvalResult<&Vec<Gc<ThunkData<'_>>>> = match &r0 {
        Ok(()) => Ok(ev.array_stack.last().unwrap()),
        Err(e) => Err(Box::new(EvalError { stack_trace: Vec::new(), kind: clone_kind(&e.kind) })),
    };

    // the binding rule, computed on small arrays: slot[i] = Some(tag) / None
    let mut expect_err: u8 = 0; // 1 TooMany, 2 Unknown, 3 Repeated, 4 NotBound
    let mut slot: [Option<u8>; 3] = [None, None, None];
    if NPOS > 3 {
        expect_err = 1;
    } else {
        let mut p = 0;
        while p < NPOS {
            slot[p] = Some(10 + p as u8);
            p += 1;
        }
        let mut k = 0;
        while k < NNAMED && expect_err == 0 {
            let name = nn[k];
            if name == 3 {
                expect_err = 2;
            } else if slot[name].is_some() {
                expect_err = 3;
            } else {
                slot[name] = Some(20 + k as u8);
            }
            k += 1;
        }
        if expect_err == 0 {
            // parameters without argument: z has a default, x and y do not (reported left to right)
            if slot[0].is_none() || slot[1].is_none() {
                expect_err = 4;
            }
        }
    }
    match &r {
        Err(e) => {
            let got = match e.kind {
                EvalErrorKind::TooManyCallArgs { .. } => 1,
                EvalErrorKind::UnknownCallParam { .. } => 2,
                EvalErrorKind::RepeatedCallParam { .. } => 3,
                EvalErrorKind::CallParamNotBound { .. } => 4,
                _ => 9,
            };
            assert!(got == expect_err, "the error is the one the binding rule prescribes");
        }
        Ok(args) => {
            assert!(expect_err == 0, "no error where the binding rule has none");
            assert!(args.len() == 3, "one thunk per parameter");
            let mut i = 0;
            while i < 3 {
                let v = args[i].view();
                match slot[i] {
                    Some(tag) => {
                        assert!(matches!(v.get_value(), Some(ValueData::Number(t)) if t == tag as f64), "parameter i receives its positional or named argument");
                    }
                    None => {
                        assert!(i == 2, "only z has a default");
                        assert!(matches!(&*v.state(), ThunkState::Done(ValueData::Bool(true)) | ThunkState::Pending(PendingThunk::Expr { expr: ir::Expr::Bool(true), .. })),
                                "an unbound parameter with a default receives the default expression");
                    }
                }
                core::mem::forget(v);
                i += 1;
            }
        }
    }
    core::mem::forget(r);
    core::mem::forget(r0);
    core::mem::forget(ev);
    core::mem::forget(program);
    core::mem::forget((func, pos, named_all));
}

// @harness id=c02_param_binding_p0_n2 props=C02 tier=attempt cap=1500 mem=40
// @desc the real parameter binder (entered through check_thunk_args_and_execute_call, as used by top-level arguments and std.* callbacks; the same generic routine binds call expressions) on f(x, y, z=default): result slot i holds the i-th positional argument, else the named argument of that parameter's name, else z's default; the errors TooManyCallArgs / UnknownCallParam / RepeatedCallParam (named twice, or named after being given positionally) / CallParamNotBound occur exactly when the binding rule says so. Arguments carry distinct values so a swap between slots is observable. This case: no positional, two named arguments with ANY names
// @bound 3 parameters (one default); 0 positional and 2 named argument(s), the names symbolic among x, y, z and a non-parameter
// @funcs Evaluator::check_thunk_args_and_execute_call, Evaluator::check_call_thunk_args, Evaluator::check_call_args_generic, FuncData::new
eval_stubs! {
#[kani::proof]
#[kani::unwind(6)]
#[kani::stub(crate::program::eval::Evaluator::execute_call, crate::program::eval::Evaluator::kstub_execute_call_record)]
#[kani::stub(crate::program::eval::Evaluator::report_error, crate::program::eval::Evaluator::kstub_report_error)]
fn c02_param_binding_p0_n2() {
    binding_case::<0, 2>();
    kani::cover!(true, "case completed");
}
}

// @harness id=c02_param_binding_p1_n2 props=C02 tier=attempt cap=1500 mem=40
// @desc the real parameter binder (entered through check_thunk_args_and_execute_call, as used by top-level arguments and std.* callbacks; the same generic routine binds call expressions) on f(x, y, z=default): result slot i holds the i-th positional argument, else the named argument of that parameter's name, else z's default; the errors TooManyCallArgs / UnknownCallParam / RepeatedCallParam (named twice, or named after being given positionally) / CallParamNotBound occur exactly when the binding rule says so. Arguments carry distinct values so a swap between slots is observable. This case: one positional, two named arguments with ANY names
// @bound 3 parameters (one default); 1 positional and 2 named argument(s), the names symbolic among x, y, z and a non-parameter
// @funcs Evaluator::check_thunk_args_and_execute_call, Evaluator::check_call_thunk_args, Evaluator::check_call_args_generic, FuncData::new
eval_stubs! {
#[kani::proof]
#[kani::unwind(6)]
#[kani::stub(crate::program::eval::Evaluator::execute_call, crate::program::eval::Evaluator::kstub_execute_call_record)]
#[kani::stub(crate::program::eval::Evaluator::report_error, crate::program::eval::Evaluator::kstub_report_error)]
fn c02_param_binding_p1_n2() {
    binding_case::<1, 2>();
    kani::cover!(true, "case completed");
}
}

// @harness id=c02_param_binding_p2_n1 props=C02 tier=attempt cap=1500 mem=40
// @desc the real parameter binder (entered through check_thunk_args_and_execute_call, as used by top-level arguments and std.* callbacks; the same generic routine binds call expressions) on f(x, y, z=default): result slot i holds the i-th positional argument, else the named argument of that parameter's name, else z's default; the errors TooManyCallArgs / UnknownCallParam / RepeatedCallParam (named twice, or named after being given positionally) / CallParamNotBound occur exactly when the binding rule says so. Arguments carry distinct values so a swap between slots is observable. This case: two positional, one named argument with ANY name
// @bound 3 parameters (one default); 2 positional and 1 named argument(s), the names symbolic among x, y, z and a non-parameter
// @funcs Evaluator::check_thunk_args_and_execute_call, Evaluator::check_call_thunk_args, Evaluator::check_call_args_generic, FuncData::new
eval_stubs! {
#[kani::proof]
#[kani::unwind(6)]
#[kani::stub(crate::program::eval::Evaluator::execute_call, crate::program::eval::Evaluator::kstub_execute_call_record)]
#[kani::stub(crate::program::eval::Evaluator::report_error, crate::program::eval::Evaluator::kstub_report_error)]
fn c02_param_binding_p2_n1() {
    binding_case::<2, 1>();
    kani::cover!(true, "case completed");
}
}

// @harness id=c02_param_binding_p1_n1 props=C02 tier=attempt cap=1500
// @desc the real parameter binder (entered through check_thunk_args_and_execute_call, as used by top-level arguments and std.* callbacks; the same generic routine binds call expressions) on f(x, y, z=default): result slot i holds the i-th positional argument, else the named argument of that parameter's name, else z's default; the errors TooManyCallArgs / UnknownCallParam / RepeatedCallParam (named twice, or named after being given positionally) / CallParamNotBound occur exactly when the binding rule says so. Arguments carry distinct values so a swap between slots is observable. This case: one positional, one named argument
// @bound 3 parameters (one default); 1 positional and 1 named argument(s), the names symbolic among x, y, z and a non-parameter
// @funcs Evaluator::check_thunk_args_and_execute_call, Evaluator::check_call_thunk_args, Evaluator::check_call_args_generic, FuncData::new
eval_stubs! {
#[kani::proof]
#[kani::unwind(6)]
#[kani::stub(crate::program::eval::Evaluator::execute_call, crate::program::eval::Evaluator::kstub_execute_call_record)]
#[kani::stub(crate::program::eval::Evaluator::report_error, crate::program::eval::Evaluator::kstub_report_error)]
fn c02_param_binding_p1_n1() {
    binding_case::<1, 1>();
    kani::cover!(true, "case completed");
}
}

// @harness id=c02_param_binding_p3_n1 props=C02 tier=attempt cap=1500
// @desc the real parameter binder (entered through check_thunk_args_and_execute_call, as used by top-level arguments and std.* callbacks; the same generic routine binds call expressions) on f(x, y, z=default): result slot i holds the i-th positional argument, else the named argument of that parameter's name, else z's default; the errors TooManyCallArgs / UnknownCallParam / RepeatedCallParam (named twice, or named after being given positionally) / CallParamNotBound occur exactly when the binding rule says so. Arguments carry distinct values so a swap between slots is observable. This case: three positional and one named argument: always RepeatedCallParam or UnknownCallParam
// @bound 3 parameters (one default); 3 positional and 1 named argument(s), the names symbolic among x, y, z and a non-parameter
// @funcs Evaluator::check_thunk_args_and_execute_call, Evaluator::check_call_thunk_args, Evaluator::check_call_args_generic, FuncData::new
eval_stubs! {
#[kani::proof]
#[kani::unwind(6)]
#[kani::stub(crate::program::eval::Evaluator::execute_call, crate::program::eval::Evaluator::kstub_execute_call_record)]
#[kani::stub(crate::program::eval::Evaluator::report_error, crate::program::eval::Evaluator::kstub_report_error)]
fn c02_param_binding_p3_n1() {
    binding_case::<3, 1>();
    kani::cover!(true, "case completed");
}
}

/// `f(a = true, b, c = false)` called with no positional and ONE named argument whose name is ANY of a, b, c or a
/// non-parameter: the two defaults are different expressions, so a default landing in the wrong slot is observable.
fn binding_defaults_case() {
    let arena = Arena::new();
    let mut program = bare_program(&arena);
    let names = [
        program.str_interner.intern(&arena, "a"),
        program.str_interner.intern(&arena, "b"),
        program.str_interner.intern(&arena, "c"),
        program.str_interner.intern(&arena, "w"),
    ];
    let da: &ir::Expr<'_> = arena.alloc(ir::Expr::Bool(true));
    let dc: &ir::Expr<'_> = arena.alloc(ir::Expr::Bool(false));
    let params: &[(InternedStr<'_>, Option<&ir::Expr<'_>>)] =
        arena.alloc_slice(&[(names[0], Some(da)), (names[1], None), (names[2], Some(dc))]);
    let func = FuncData::new(params, FuncKind::Identity { name: None });
    let n: u8 = kani::any();
    kani::assume(n < 4);
    let named = [(names[n as usize], done_thunk(ValueData::Number(20.0)))];
    let mut ev = bare_evaluator(&mut program);
    let r0 = ev.check_thunk_args_and_execute_call(&func, &[], &named, None);
    match &r0 {
        Ok(()) => {
            assert!(n == 1, "only naming b binds every parameter without a default");
            let args = ev.array_stack.last().unwrap();
            assert!(args.len() == 3);
            let (t0, t1, t2) = (args[0].view(), args[1].view(), args[2].view());
            assert!(matches!(t0.get_value(), Some(ValueData::Bool(true))), "a receives ITS OWN default");
            assert!(matches!(t1.get_value(), Some(ValueData::Number(x)) if x == 20.0), "b receives the named argument");
            assert!(matches!(t2.get_value(), Some(ValueData::Bool(false))), "c receives ITS OWN default, not a's");
            core::mem::forget((t0, t1, t2));
        }
        Err(e) => {
            let ok = match n {
                0 | 2 => matches!(e.kind, EvalErrorKind::CallParamNotBound { .. }),
                1 => false,
                _ => matches!(e.kind, EvalErrorKind::UnknownCallParam { .. }),
            };
            assert!(ok, "b left unbound is CallParamNotBound; a non-parameter name is UnknownCallParam");
        }
    }
    kani::cover!(r0.is_ok(), "default, named, default");
    kani::cover!(n == 3, "unknown name");
    core::mem::forget(r0);
    core::mem::forget(ev);
    core::mem::forget(program);
    core::mem::forget((func, named));
}

// @harness id=c02_param_binding_defaults props=C02 tier=attempt cap=1500 mem=40
// @desc the real parameter binder on f(a = D1, b, c = D2) (two DIFFERENT default expressions around a required parameter) called with one named argument of ANY name: naming b binds a to D1, b to the argument and c to D2 - each parameter gets its OWN default even when a named argument sits between two defaulted parameters; naming a or c leaves b unbound (CallParamNotBound); a non-parameter name is UnknownCallParam
// @bound 3 parameters, two defaults; one named argument with a symbolic name
// @funcs Evaluator::check_thunk_args_and_execute_call, Evaluator::check_call_thunk_args, Evaluator::check_call_args_generic, Program::new_pending_expr_thunk
eval_stubs! {
#[kani::proof]
#[kani::unwind(6)]
#[kani::stub(crate::program::eval::Evaluator::execute_call, crate::program::eval::Evaluator::kstub_execute_call_record)]
#[kani::stub(crate::program::eval::Evaluator::report_error, crate::program::eval::Evaluator::kstub_report_error)]
fn c02_param_binding_defaults() {
    binding_defaults_case();
}
}

// @harness id=c02_param_binding_default_named_default props=C02 tier=quick cap=1500
// @desc the real parameter binder on f(a = D1, b, c = D2) called as f(b = v) for ANY finite v: a is bound to D1, b to v and c to D2 - each defaulted parameter gets its OWN default when a named argument sits between them (the symbolic-name version of this harness, c02_param_binding_defaults, is a thorough-tier attempt)
// @bound one call shape; the argument value is symbolic
// @funcs Evaluator::check_thunk_args_and_execute_call, Evaluator::check_call_thunk_args, Evaluator::check_call_args_generic, Program::new_pending_expr_thunk
eval_stubs! {
#[kani::proof]
#[kani::unwind(6)]
#[kani::stub(crate::program::eval::Evaluator::execute_call, crate::program::eval::Evaluator::kstub_execute_call_record)]
#[kani::stub(crate::program::eval::Evaluator::report_error, crate::program::eval::Evaluator::kstub_report_error)]
fn c02_param_binding_default_named_default() {
    let arena = Arena::new();
    let mut program = bare_program(&arena);
    let a = program.str_interner.intern(&arena, "a");
    let b = program.str_interner.intern(&arena, "b");
    let c = program.str_interner.intern(&arena, "c");
    let da: &ir::Expr<'_> = arena.alloc(ir::Expr::Bool(true));
    let dc: &ir::Expr<'_> = arena.alloc(ir::Expr::Bool(false));
    let params: &[(InternedStr<'_>, Option<&ir::Expr<'_>>)] = arena.alloc_slice(&[(a, Some(da)), (b, None), (c, Some(dc))]);
    let func = FuncData::new(params, FuncKind::Identity { name: None });
    let v = any_finite();
    let named = [(b, done_thunk(ValueData::Number(v)))];
    let mut ev = bare_evaluator(&mut program);
    let r0 = ev.check_thunk_args_and_execute_call(&func, &[], &named, None);
    assert!(r0.is_ok(), "every parameter is bound");
    let args = ev.array_stack.last().unwrap();
    assert!(args.len() == 3);
    let (t0, t1, t2) = (args[0].view(), args[1].view(), args[2].view());
    assert!(matches!(t0.get_value(), Some(ValueData::Bool(true))), "a receives ITS OWN default");
    assert!(matches!(t1.get_value(), Some(ValueData::Number(x)) if x.to_bits() == v.to_bits()), "b receives the named argument");
    assert!(matches!(t2.get_value(), Some(ValueData::Bool(false))), "c receives ITS OWN default, not a's");
    kani::cover!(v < 0.0, "negative argument");
    core::mem::forget((t0, t1, t2));
    core::mem::forget(r0);
    core::mem::forget(ev);
    core::mem::forget(program);
    core::mem::forget((func, named));
}
}

// @harness id=c02_param_binding_shapes_ok_a props=C02 tier=attempt cap=1800
// @desc the real parameter binder on f(x, y, z=default), concrete call shapes: f(p0, p1) (z takes its default) and f(p0, y=n0). Slot i holds the i-th positional, else the named argument of that parameter's name, else z's default; arguments carry distinct values so a swap between slots is observable (the version with symbolic names is an attempt-tier harness)
// @bound 3 parameters (one default); 2 concrete call shapes
// @funcs Evaluator::check_thunk_args_and_execute_call, Evaluator::check_call_thunk_args, Evaluator::check_call_args_generic, FuncData::new
eval_stubs! {
#[kani::proof]
#[kani::unwind(6)]
#[kani::stub(crate::program::eval::Evaluator::execute_call, crate::program::eval::Evaluator::kstub_execute_call_record)]
#[kani::stub(crate::program::eval::Evaluator::report_error, crate::program::eval::Evaluator::kstub_report_error)]
fn c02_param_binding_shapes_ok_a() {
    binding_case_names::<2, 0>(Some((0, 0)));
    binding_case_names::<1, 1>(Some((1, 0)));
    kani::cover!(true, "shapes completed");
}
}

// @harness id=c02_param_binding_shapes_ok_b props=C02 tier=attempt cap=1800
// @desc the real parameter binder on f(x, y, z=default), concrete call shapes: f(y=n0, x=n1) (named out of order) and f(p0, p1, z=n0). Slot i holds the i-th positional, else the named argument of that parameter's name, else z's default; arguments carry distinct values so a swap between slots is observable (the version with symbolic names is an attempt-tier harness)
// @bound 3 parameters (one default); 2 concrete call shapes
// @funcs Evaluator::check_thunk_args_and_execute_call, Evaluator::check_call_thunk_args, Evaluator::check_call_args_generic, FuncData::new
eval_stubs! {
#[kani::proof]
#[kani::unwind(6)]
#[kani::stub(crate::program::eval::Evaluator::execute_call, crate::program::eval::Evaluator::kstub_execute_call_record)]
#[kani::stub(crate::program::eval::Evaluator::report_error, crate::program::eval::Evaluator::kstub_report_error)]
fn c02_param_binding_shapes_ok_b() {
    binding_case_names::<0, 2>(Some((1, 0)));
    binding_case_names::<2, 1>(Some((2, 0)));
    kani::cover!(true, "shapes completed");
}
}

// @harness id=c02_param_binding_shapes_err_a props=C02 tier=attempt cap=1800
// @desc the real parameter binder on f(x, y, z=default), concrete call shapes: four positional arguments (TooManyCallArgs) and f(p0) (CallParamNotBound for y). Slot i holds the i-th positional, else the named argument of that parameter's name, else z's default; arguments carry distinct values so a swap between slots is observable (the version with symbolic names is an attempt-tier harness)
// @bound 3 parameters (one default); 2 concrete call shapes
// @funcs Evaluator::check_thunk_args_and_execute_call, Evaluator::check_call_thunk_args, Evaluator::check_call_args_generic, FuncData::new
eval_stubs! {
#[kani::proof]
#[kani::unwind(6)]
#[kani::stub(crate::program::eval::Evaluator::execute_call, crate::program::eval::Evaluator::kstub_execute_call_record)]
#[kani::stub(crate::program::eval::Evaluator::report_error, crate::program::eval::Evaluator::kstub_report_error)]
fn c02_param_binding_shapes_err_a() {
    binding_case_names::<4, 0>(Some((0, 0)));
    binding_case_names::<1, 0>(Some((0, 0)));
    kani::cover!(true, "shapes completed");
}
}

// @harness id=c02_param_binding_shapes_err_b props=C02 tier=attempt cap=1800
// @desc the real parameter binder on f(x, y, z=default), concrete call shapes: f(p0, w=n0) with w not a parameter (UnknownCallParam) and f(p0, x=n0) (RepeatedCallParam: named after being given positionally). Slot i holds the i-th positional, else the named argument of that parameter's name, else z's default; arguments carry distinct values so a swap between slots is observable (the version with symbolic names is an attempt-tier harness)
// @bound 3 parameters (one default); 2 concrete call shapes
// @funcs Evaluator::check_thunk_args_and_execute_call, Evaluator::check_call_thunk_args, Evaluator::check_call_args_generic, FuncData::new
eval_stubs! {
#[kani::proof]
#[kani::unwind(6)]
#[kani::stub(crate::program::eval::Evaluator::execute_call, crate::program::eval::Evaluator::kstub_execute_call_record)]
#[kani::stub(crate::program::eval::Evaluator::report_error, crate::program::eval::Evaluator::kstub_report_error)]
fn c02_param_binding_shapes_err_b() {
    binding_case_names::<1, 1>(Some((3, 0)));
    binding_case_names::<1, 1>(Some((0, 0)));
    kani::cover!(true, "shapes completed");
}
}

// @harness id=c02_param_binding_positional props=C02 tier=attempt cap=1500 mem=40
// @desc as c02_param_binding_p0_n2 for purely positional calls: 2 arguments (z takes its default), 3 arguments (fast path), 4 arguments (TooManyCallArgs), 1 argument (CallParamNotBound for y), 0 arguments
// @bound 3 parameters (one default); positional 0..4
// @funcs Evaluator::check_thunk_args_and_execute_call, Evaluator::check_call_thunk_args, Evaluator::check_call_args_generic
eval_stubs! {
#[kani::proof]
#[kani::unwind(6)]
#[kani::stub(crate::program::eval::Evaluator::execute_call, crate::program::eval::Evaluator::kstub_execute_call_record)]
#[kani::stub(crate::program::eval::Evaluator::report_error, crate::program::eval::Evaluator::kstub_report_error)]
fn c02_param_binding_positional() {
    binding_case::<2, 0>();
    binding_case::<3, 0>();
    kani::cover!(true, "all positional");
    binding_case::<4, 0>();
    kani::cover!(true, "too many");
    binding_case::<1, 0>();
    kani::cover!(true, "not bound");
    binding_case::<0, 0>();
}
}

// @harness id=c02_run_must_fail props=C02:thorough,C18 tier=quick cap=900 unwindset=9Evaluator3run@first:1 expect=fail
// @desc vacuity twin of the C02 run-step harnesses
run_stubs_all! {
#[kani::proof]
#[kani::unwind(4)]
fn c02_run_must_fail() {
    if_case(0, true);
    assert!(false, "reachability witness");
}
}

// ---------------------------------------------------------------------------------------------------
// comprehensions: the bookkeeping arms (`for x in A for y in B if C`)
// ---------------------------------------------------------------------------------------------------

fn vars_entry<'p>(name: InternedStr<'p>, t: &GcView<ThunkData<'p>>) -> FHashMap<InternedStr<'p>, GcView<ThunkData<'p>>> {
    let mut m = FHashMap::default();
    m.insert(name, t.clone());
    m
}

fn binds<'p>(m: &FHashMap<InternedStr<'p>, GcView<ThunkData<'p>>>, name: InternedStr<'p>, t: &GcView<ThunkData<'p>>) -> bool {
    matches!(m.get(&name), Some(v) if v.kani_same(t))
}

/// `for x in <value>` as the first clause: value = a 2-element array, or a number.
fn init_comp_spec_case(is_array: bool) {
    let arena = Arena::new();
    let mut program = bare_program(&arena);
    program.max_stack = 0;
    let span = a_span(&mut program);
    let x = program.str_interner.intern(&arena, "x");
    let env = GcView::kani_unmanaged(ThunkEnv::new());
    let (arr, items) = super::c08::pending_array::<2>(&arena, &env);
    let mut ev = bare_evaluator(&mut program);
    ev.stack_trace_len = 1;
    ev.value_stack.push(if is_array { ValueData::Array(Gc::from(&arr)) } else { ValueData::Number(any_finite()) });
    ev.state_stack.push(State::GotInitCompSpec { var_name: x, value_span: span });
    let r = ev.run();
    if is_array {
        assert!(is_stack_overflow(&r), "the step ran");
        assert!(ev.comp_spec_stack.len() == 1);
        let vars = &ev.comp_spec_stack[0].vars;
        assert!(vars.len() == 2, "one binding set per element");
        assert!(binds(&vars[0], x, &items[0]) && binds(&vars[1], x, &items[1]), "x is bound to the elements in array order, unevaluated");
        assert!(vars[0].len() == 1 && vars[1].len() == 1);
    } else {
        assert!(matches!(&r, Err(e) if matches!(e.kind, EvalErrorKind::ForSpecValueIsNotArray { .. })), "iterating over a non-array is an error");
    }
    core::mem::forget(r);
    core::mem::forget(ev);
    core::mem::forget(program);
    core::mem::forget((arr, items, env));
}

/// second clause `for y in <value>`: two outer bindings {x: t0}, {x: t1}; the values computed for them are the arrays
/// [a, b] and [c] (or, if !ok, [a, b] and a number).
fn for_spec_case(ok: bool) {
    let arena = Arena::new();
    let mut program = bare_program(&arena);
    program.max_stack = 0;
    let span = a_span(&mut program);
    let x = program.str_interner.intern(&arena, "x");
    let y = program.str_interner.intern(&arena, "y");
    let env = GcView::kani_unmanaged(ThunkEnv::new());
    let (_xs, xt) = super::c08::pending_array::<2>(&arena, &env);
    let (a0, a0t) = super::c08::pending_array::<2>(&arena, &env);
    let (a1, a1t) = super::c08::pending_array::<1>(&arena, &env);
    let mut ev = bare_evaluator(&mut program);
    ev.stack_trace_len = 1;
    let mut outer = Vec::with_capacity(4);
    outer.push(vars_entry(x, &xt[0]));
    outer.push(vars_entry(x, &xt[1]));
    ev.comp_spec_stack.push(CompSpec { vars: outer });
    ev.value_stack.push(ValueData::Array(Gc::from(&a0)));
    ev.value_stack.push(if ok { ValueData::Array(Gc::from(&a1)) } else { ValueData::Number(any_finite()) });
    ev.state_stack.push(State::GotForSpec { var_name: y, value_span: span });
    let r = ev.run();
    if ok {
        assert!(is_stack_overflow(&r), "the step ran");
        assert!(ev.value_stack.is_empty(), "one value consumed per outer binding");
        let vars = &ev.comp_spec_stack[0].vars;
        assert!(vars.len() == 3, "2 + 1 combinations");
        assert!(binds(&vars[0], x, &xt[0]) && binds(&vars[0], y, &a0t[0]), "outer binding 0 with the first element of ITS array");
        assert!(binds(&vars[1], x, &xt[0]) && binds(&vars[1], y, &a0t[1]), "then its second element (the inner clause varies fastest)");
        assert!(binds(&vars[2], x, &xt[1]) && binds(&vars[2], y, &a1t[0]), "then outer binding 1 with the element of its own array");
    } else {
        assert!(matches!(&r, Err(e) if matches!(e.kind, EvalErrorKind::ForSpecValueIsNotArray { .. })), "a non-array for any outer binding is an error");
    }
    core::mem::forget(r);
    core::mem::forget(ev);
    core::mem::forget(program);
    core::mem::forget((_xs, xt, a0, a0t, a1, a1t, env));
}

/// `if <cond>` clause: three bindings, ANY three booleans (or, if !ok, a number in the middle).
fn if_spec_case(ok: bool) {
    let arena = Arena::new();
    let mut program = bare_program(&arena);
    program.max_stack = 0;
    let span = a_span(&mut program);
    let x = program.str_interner.intern(&arena, "x");
    let env = GcView::kani_unmanaged(ThunkEnv::new());
    let (_xs, xt) = super::c08::pending_array::<3>(&arena, &env);
    let keep: [bool; 3] = [kani::any(), kani::any(), kani::any()];
    let mut ev = bare_evaluator(&mut program);
    ev.stack_trace_len = 1;
    let mut outer = Vec::with_capacity(4);
    outer.push(vars_entry(x, &xt[0]));
    outer.push(vars_entry(x, &xt[1]));
    outer.push(vars_entry(x, &xt[2]));
    ev.comp_spec_stack.push(CompSpec { vars: outer });
    ev.value_stack.push(ValueData::Bool(keep[0]));
    ev.value_stack.push(if ok { ValueData::Bool(keep[1]) } else { ValueData::Number(any_finite()) });
    ev.value_stack.push(ValueData::Bool(keep[2]));
    ev.state_stack.push(State::GotIfSpec { cond_span: span });
    let r = ev.run();
    if ok {
        assert!(is_stack_overflow(&r), "the step ran");
        assert!(ev.value_stack.is_empty());
        let vars = &ev.comp_spec_stack[0].vars;
        let n = keep[0] as usize + keep[1] as usize + keep[2] as usize;
        assert!(vars.len() == n, "exactly the bindings whose condition is true survive");
        // order is preserved
        let mut k = 0;
        let mut i = 0;
        while i < 3 {
            if keep[i] {
                assert!(binds(&vars[k], x, &xt[i]), "survivors keep their relative order");
                k += 1;
            }
            i += 1;
        }
        kani::cover!(n == 0, "all filtered out");
        kani::cover!(keep[0] && !keep[1] && keep[2], "middle one filtered out");
    } else {
        assert!(matches!(&r, Err(e) if matches!(e.kind, EvalErrorKind::CondIsNotBool { .. })), "a non-boolean condition is an error");
    }
    core::mem::forget(r);
    core::mem::forget(ev);
    core::mem::forget(program);
    core::mem::forget((_xs, xt, env));
}

// @harness id=c02_comprehension_for props=C02 tier=attempt cap=1500 unwindset=9Evaluator3run@first:1
// @desc one iteration of the real Evaluator::run per case on the bookkeeping of `[e for x in A for y in B]`: GotInitCompSpec binds x to the elements of A in order, unevaluated (non-array: ForSpecValueIsNotArray); GotForSpec combines every outer binding with the elements of the array computed FOR THAT binding, outer binding first and inner element varying fastest (so the result order is that of nested loops, and B may depend on x); a non-array for any binding is an error
// @bound one loop iteration per case; 2 outer bindings, arrays of 2 and 1 elements
// @funcs Evaluator::run (arms State::GotInitCompSpec, State::GotForSpec)
run_stubs_all! {
#[kani::proof]
#[kani::unwind(6)]
fn c02_comprehension_for() {
    init_comp_spec_case(true);
    kani::cover!(true, "first clause over an array");
    init_comp_spec_case(false);
    kani::cover!(true, "first clause over a number");
    for_spec_case(true);
    kani::cover!(true, "nested clause");
    for_spec_case(false);
    kani::cover!(true, "nested clause over a number");
}
}

// @harness id=c02_comprehension_if props=C02 tier=attempt cap=1500 unwindset=9Evaluator3run@first:1
// @desc one iteration of the real Evaluator::run on GotIfSpec with three bindings and ANY three condition values: exactly the bindings whose condition is true survive, in their original order; a non-boolean condition is CondIsNotBool
// @bound one loop iteration per case; 3 bindings
// @funcs Evaluator::run (arm State::GotIfSpec)
run_stubs_all! {
#[kani::proof]
#[kani::unwind(6)]
fn c02_comprehension_if() {
    if_spec_case(true);
    if_spec_case(false);
    kani::cover!(true, "non-boolean condition");
}
}


// ---------------------------------------------------------------------------------------------------
// delayed calls (the elements std.map / std.mapWithIndex / std.mapWithKey / std.filterMap / std.makeArray produce)
// ---------------------------------------------------------------------------------------------------

/// nargs: how many argument thunks the delayed call carries for `function(x, y = true) null`
fn call_thunk_case(nargs: u8) {
    let arena = Arena::new();
    let mut program = bare_program(&arena);
    program.max_stack = 0;
    let x = program.str_interner.intern(&arena, "x");
    let y = program.str_interner.intern(&arena, "y");
    let def_env = empty_env();
    let body: &ir::Expr<'_> = arena.alloc(ir::Expr::Null);
    let dflt: &ir::Expr<'_> = arena.alloc(ir::Expr::Bool(true));
    let params: &[(InternedStr<'_>, Option<&ir::Expr<'_>>)] = arena.alloc_slice(&[(x, None), (y, Some(dflt))]);
    let func: GcView<FuncData<'_>> =
        GcView::kani_unmanaged(FuncData::new(params, FuncKind::Normal { name: None, body, env: Gc::from(&def_env) }));
    let a0 = done_thunk(ValueData::Number(10.0));
    let a1 = done_thunk(ValueData::Number(11.0));
    let a2 = done_thunk(ValueData::Number(12.0));
    let args: Box<[Gc<ThunkData<'_>>]> = match nargs {
        0 => Box::new([]),
        1 => Box::new([Gc::from(&a0)]),
        2 => Box::new([Gc::from(&a0), Gc::from(&a1)]),
        _ => Box::new([Gc::from(&a0), Gc::from(&a1), Gc::from(&a2)]),
    };
    let thunk = GcView::kani_unmanaged(ThunkData::new_pending_call(Gc::from(&func), args));
    let keep = thunk.clone();
    let mut ev = bare_evaluator(&mut program);
    ev.stack_trace_len = 1;
    ev.state_stack.push(State::DoThunk(thunk));
    let r = ev.run();
    match nargs {
        1 | 2 => {
            assert!(is_stack_overflow(&r), "the step ran: a call with 1 or 2 arguments is well-formed");
            assert!(ev.state_stack.len() == 2 && matches!(&ev.state_stack[0], State::GotThunk(t) if t.kani_same(&keep)));
            let State::Expr { expr, env: call_env } = &ev.state_stack[1] else { panic!("the body is scheduled") };
            assert!(core::ptr::eq(*expr, body));
            // EVERY parameter is bound in the body's environment (looking up an unbound one panics)
            let tx = call_env.get_var(x).view();
            let ty = call_env.get_var(y).view();
            assert!(tx.kani_same(&a0), "x is the first argument");
            if nargs == 2 {
                assert!(ty.kani_same(&a1), "y is the second argument");
            } else {
                assert!(matches!(ty.get_value(), Some(ValueData::Bool(true))), "y, not passed, is bound to its default");
            }
            core::mem::forget((tx, ty));
        }
        0 => {
            assert!(matches!(&r, Err(e) if matches!(e.kind, EvalErrorKind::CallParamNotBound { .. })), "a required parameter without argument is an error");
        }
        _ => {
            assert!(matches!(&r, Err(e) if matches!(e.kind, EvalErrorKind::TooManyCallArgs { .. })), "more arguments than parameters is an error");
        }
    }
    core::mem::forget(r);
    core::mem::forget(ev);
    core::mem::forget(program);
    core::mem::forget((keep, func, def_env, a0, a1, a2));
}

// @harness id=c02_call_thunk_binds_defaults props=C02,C01,C04 tier=attempt cap=2700 mem=40 unwindset=9Evaluator3run@first:1
// @desc one iteration of the real Evaluator::run on DoThunk of a DELAYED CALL (what std.map, std.mapWithIndex, std.mapWithKey, std.filterMap and std.makeArray put into their results) of `function(x, y = true) body` carrying ONE argument: the body is scheduled in an environment that binds x to the argument AND y to its default - never a body that runs with an unbound parameter (looking one up panics "variable not found")
// @bound one loop iteration; a two-parameter function with one default; one argument
// @funcs Evaluator::run (arm State::DoThunk, PendingThunk::Call), Evaluator::check_call_thunk_args, Evaluator::check_call_args_generic, Evaluator::execute_call, Evaluator::execute_normal_call, ThunkEnv::get_var
run_stubs_call! {
#[kani::proof]
#[kani::unwind(6)]
#[kani::stub(crate::program::eval::Evaluator::execute_built_in_call, crate::program::eval::Evaluator::kstub_execute_built_in_call)]
#[kani::stub(crate::program::eval::Evaluator::execute_native_call, crate::program::eval::Evaluator::kstub_execute_native_call)]
fn c02_call_thunk_binds_defaults() {
    call_thunk_case(1);
    kani::cover!(true, "default bound");
}
}

// @harness id=c02_call_thunk_arity props=C02,C01 tier=attempt cap=2700 mem=40 unwindset=9Evaluator3run@first:1
// @desc as c02_call_thunk_binds_defaults for the other argument counts: two arguments bind x and y; none fails with CallParamNotBound, three with TooManyCallArgs
// @bound one loop iteration per case; 0, 2 and 3 arguments
// @funcs Evaluator::run (arm State::DoThunk, PendingThunk::Call), Evaluator::check_call_thunk_args, Evaluator::check_call_args_generic, Evaluator::execute_call
run_stubs_call! {
#[kani::proof]
#[kani::unwind(6)]
#[kani::stub(crate::program::eval::Evaluator::execute_built_in_call, crate::program::eval::Evaluator::kstub_execute_built_in_call)]
#[kani::stub(crate::program::eval::Evaluator::execute_native_call, crate::program::eval::Evaluator::kstub_execute_native_call)]
fn c02_call_thunk_arity() {
    call_thunk_case(2);
    kani::cover!(true, "both passed");
    call_thunk_case(0);
    kani::cover!(true, "too few");
    call_thunk_case(3);
    kani::cover!(true, "too many");
}
}
