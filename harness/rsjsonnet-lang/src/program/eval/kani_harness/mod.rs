//! Kani harnesses for the evaluator's step functions. This module is a child of
//! `program::eval`, so it sees every private item of `program` and `eval`.
//!
//! Infrastructure (DESIGN.md section 3): `bare_program` / `bare_evaluator` build
//! the real structs by struct literal (no `Program::new`, which would lex, parse
//! and analyse the 2k-line stdlib); argument objects come from
//! `GcView::kani_unmanaged`; harnesses never pop/drop `State`, `ValueData`,
//! `Box<EvalError>` or `GcView` values (drop glue of the recursive enums is the
//! dominant cost) - results are inspected through `last()`/indexing and every
//! owner is `mem::forget`-ed.
#![allow(unused)]

use std::cell::{Cell, OnceCell};
use std::rc::Rc;

use super::*;
use crate::arena::Arena;
use crate::gc::GcContext;
use crate::interner::StrInterner;
use crate::kani_support as ks;
use crate::program::Exprs;
use crate::span::SpanManager;

mod c06;
mod c07;
mod radix;
mod c17;
mod c02;
mod c04;
mod c17_sets;
mod c09;
mod c03;
mod c18;
mod c08;
mod c02_run;
mod c10_frames;
mod c02_expr;

pub(in crate::program) fn bare_program<'p>(arena: &'p Arena) -> Program<'p> {
    let str_interner = StrInterner::new();
    let gc_ctx = GcContext::new();
    let exprs = Exprs {
        null: arena.alloc(ir::Expr::Null),
        false_: arena.alloc(ir::Expr::Bool(false)),
        true_: arena.alloc(ir::Expr::Bool(true)),
        self_obj: arena.alloc(ir::Expr::SelfObj),
        top_obj: arena.alloc(ir::Expr::TopObj),
    };
    let mut span_mgr = SpanManager::new();
    let (_, stdlib_src_id) = span_mgr.insert_source_context(0);
    let empty_array: GcView<ArrayData<'p>> = GcView::kani_unmanaged(Box::new([]));
    let identity_func = GcView::kani_unmanaged(FuncData::new(&[], FuncKind::Identity { name: None }));
    Program {
        arena,
        str_interner,
        span_mgr,
        gc_ctx,
        objs_after_last_gc: 0,
        max_stack: 500,
        exprs,
        stdlib_src_id,
        stdlib_data: b"",
        stdlib_base_obj: None,
        stdlib_extra: FHashMap::default(),
        empty_array,
        identity_func,
        ext_vars: FHashMap::default(),
        native_funcs: FHashMap::default(),
    }
}

pub(in crate::program) fn bare_evaluator<'a, 'p>(program: &'a mut Program<'p>) -> Evaluator<'a, 'p> {
    Evaluator {
        program,
        callbacks: None,
        stack_trace_len: 0,
        state_stack: Vec::new(),
        value_stack: Vec::new(),
        bool_stack: Vec::new(),
        string_stack: Vec::new(),
        array_stack: Vec::new(),
        object_stack: Vec::new(),
        comp_spec_stack: Vec::new(),
        cmp_ord_stack: Vec::new(),
        byte_array_stack: Vec::new(),
    }
}

/// An arbitrary *finite* double: the only numbers the language lets exist (C06).
pub(in crate::program) fn any_finite() -> f64 {
    let x: f64 = kani::any();
    kani::assume(x.is_finite());
    x
}

/// A done thunk holding `v`, not registered in the collector.
pub(in crate::program) fn done_thunk<'p>(v: ValueData<'p>) -> GcView<ThunkData<'p>> {
    GcView::kani_unmanaged(ThunkData::new_done(v))
}

/// Reads the number on top of the value stack without popping it.
pub(in crate::program) fn top_number(ev: &Evaluator<'_, '_>) -> Option<f64> {
    match ev.value_stack.last() {
        Some(ValueData::Number(x)) => Some(*x),
        _ => None,
    }
}

impl<'p> Evaluator<'_, 'p> {
    /// Stub for `Evaluator::execute_call` in harnesses whose key function is the identity function: the real
    /// one dispatches on the function kind and thereby makes every builtin (YAML parser, hashes, manifesters,
    /// ...) reachable, which no harness survives. The identity behaviour is the real code's identity arm.
    pub(in crate::program) fn kstub_execute_call(&mut self, func: &FuncData<'p>, args: Box<[Gc<ThunkData<'p>>]>) {
        assert!(matches!(func.kind, FuncKind::Identity { .. }), "harness key functions are the identity");
        self.state_stack.push(State::DoThunk(args[0].view()));
        core::mem::forget(args);
    }
}

/// The identity function, as `Program::new` builds it.
pub(in crate::program) fn identity_func<'p>(arena: &'p Arena, interner: &StrInterner<'p>) -> GcView<FuncData<'p>> {
    let x = interner.intern(arena, "x");
    let params: &'p [(InternedStr<'p>, Option<&'p ir::Expr<'p>>); 1] = Box::leak(Box::new([(x, None)]));
    GcView::kani_unmanaged(FuncData::new_identity_func(None, params))
}

/// An array of `N` done thunks holding arbitrary finite numbers (unmanaged), plus the numbers.
pub(in crate::program) fn number_array<'p, const N: usize>() -> (GcView<ArrayData<'p>>, [GcView<ThunkData<'p>>; N], [f64; N]) {
    let vals: [f64; N] = core::array::from_fn(|_| any_finite());
    let thunks: [GcView<ThunkData<'p>>; N] = core::array::from_fn(|i| done_thunk(ValueData::Number(vals[i])));
    let items: Vec<Gc<ThunkData<'p>>> = thunks.iter().map(Gc::from).collect();
    (GcView::kani_unmanaged(items.into_boxed_slice()), thunks, vals)
}

/// Standard stub set for evaluator harnesses.
macro_rules! eval_stubs {
    ($item:item) => {
        #[kani::stub(foldhash::seed::gen_per_hasher_seed, crate::kani_support::stub_gen_per_hasher_seed)]
        #[kani::stub(foldhash::seed::global::GlobalSeed::init_slow, crate::kani_support::stub_init_slow)]
        #[kani::stub(crate::arena::Arena::alloc, crate::arena::Arena::kstub_alloc)]
        #[kani::stub(crate::arena::Arena::alloc_slice, crate::arena::Arena::kstub_alloc_slice)]
        #[kani::stub(crate::arena::Arena::alloc_str, crate::arena::Arena::kstub_alloc_str)]
        #[kani::stub(alloc::fmt::format, crate::kani_support::stub_fmt_format)]
        #[kani::stub(core::fmt::write, crate::kani_support::stub_fmt_write_nothing)]
        #[kani::stub(<f64 as core::fmt::Display>::fmt, crate::kani_support::stub_f64_display)]
        #[kani::stub(f64::exp, crate::kani_support::stub_libm1)]
        #[kani::stub(f64::ln, crate::kani_support::stub_libm1)]
        #[kani::stub(f64::log2, crate::kani_support::stub_libm1)]
        #[kani::stub(f64::log10, crate::kani_support::stub_libm1)]
        #[kani::stub(f64::sqrt, crate::kani_support::stub_libm1)]
        #[kani::stub(f64::sin, crate::kani_support::stub_libm1)]
        #[kani::stub(f64::cos, crate::kani_support::stub_libm1)]
        #[kani::stub(f64::tan, crate::kani_support::stub_libm1)]
        #[kani::stub(f64::asin, crate::kani_support::stub_libm1)]
        #[kani::stub(f64::acos, crate::kani_support::stub_libm1)]
        #[kani::stub(f64::atan, crate::kani_support::stub_libm1)]
        #[kani::stub(f64::atan2, crate::kani_support::stub_libm2)]
        #[kani::stub(f64::hypot, crate::kani_support::stub_libm2)]
        #[kani::stub(f64::powf, crate::kani_support::stub_libm2)]
        $item
    };
}
pub(in crate::program) use eval_stubs;

/// `eval_stubs!` plus the identity-only `execute_call`.
macro_rules! eval_stubs_call {
    ($item:item) => {
        eval_stubs! {
            #[kani::stub(crate::program::eval::Evaluator::execute_call, crate::program::eval::Evaluator::kstub_execute_call)]
            $item
        }
    };
}
pub(in crate::program) use eval_stubs_call;

// ---------------------------------------------------------------------------------------------------
// Single iterations of the real `Evaluator::run` loop (DESIGN.md section 11.4).
// ---------------------------------------------------------------------------------------------------
impl<'p, 'a> Evaluator<'a, 'p> {
    /// Stub for `Evaluator::report_error` in run-step harnesses: same error kind, empty stack trace (the real
    /// one walks the whole state stack through `get_stack_trace`, whose result is not the subject there).
    pub(in crate::program) fn kstub_report_error(&self, error_kind: EvalErrorKind) -> Box<EvalError> {
        Box::new(EvalError { stack_trace: Vec::new(), kind: error_kind })
    }
}

impl<'p> Program<'p> {
    /// Stub for `Program::maybe_gc` in run-step harnesses: no collection happens during the step (the
    /// collection schedule is not part of any claim made by these harnesses).
    pub(in crate::program) fn kstub_maybe_gc(&mut self) {}
}


impl<'p> ObjectData<'p> {
    /// Stub for `ObjectData::get_fields_order` in harnesses whose subject is a CONSUMER of the field order (object
    /// equality, the manifesters): the harness objects carry the sorted field list in the `fields_order` cache, as
    /// every object does after its first use, and the stub returns the cached list. The computation of the list
    /// (sorting, visibility resolution across layers) is the subject of the C07 harnesses; it costs CBMC ~10 min
    /// per object and is not repeated in every consumer.
    pub(in crate::program) fn kstub_get_fields_order_cached(&self) -> &[(InternedStr<'p>, ast::Visibility)] {
        self.fields_order.get().expect("harness objects carry a cached field order")
    }
}

impl<'p> Evaluator<'_, 'p> {
    /// Stubs for the builtin / native dispatch tables behind `execute_call` (they make every builtin reachable):
    /// harnesses that keep `execute_call` real only call user-defined and identity functions.
    pub(in crate::program) fn kstub_execute_built_in_call(&mut self, _kind: crate::program::data::BuiltInFunc, _args: &[Gc<ThunkData<'p>>]) {
        panic!("run-step harness: builtin dispatch reached")
    }

    pub(in crate::program) fn kstub_execute_native_call(&mut self, _name: InternedStr<'p>, _args: &[Gc<ThunkData<'p>>]) {
        panic!("run-step harness: native dispatch reached")
    }
}
