//! C03-H2: trace completeness of the real heap data types. The collector finds
//! roots by COUNTING, for every object, how many handles inside other heap objects
//! point to it (`GcCountCtx`), and reaches live objects by MARKING through the same
//! `GcTrace::trace` implementations. An implementation that skips one `Gc` field makes
//! the pointee look externally referenced (never collected: a leak) in the count
//! pass and unreachable in the mark pass (collected while still in use: "attempted
//! to access destroyed object"); one that visits a field twice makes a live object
//! look like garbage. Each harness builds one value whose every `Gc` field points
//! to a DISTINCT fresh object, runs the real trace under the real contexts and
//! asserts that every target was visited exactly once.
use super::*;
use crate::gc::{kani_trace_count, kani_trace_mark_queue_len};

fn fresh_env<'p>() -> GcView<ThunkEnv<'p>> {
    GcView::kani_unmanaged(ThunkEnv::new())
}

fn fresh_thunk<'p>() -> GcView<ThunkData<'p>> {
    GcView::kani_unmanaged(ThunkData::new_done(ValueData::Null))
}

fn mk_field<'p>(env: &GcView<ThunkEnv<'p>>, thunk: &GcView<ThunkData<'p>>) -> ObjectField<'p> {
    ObjectField::Normal(ObjectFieldData {
        base_env: Some(Gc::from(env)),
        visibility: ast::Visibility::Default,
        expr: None,
        thunk: OnceCell::from(Gc::from(thunk)),
    })
}

fn mk_traced_layer<'p>(
    base: &GcView<ThunkEnv<'p>>,
    cached: &GcView<ThunkEnv<'p>>,
    fields: FHashMap<InternedStr<'p>, ObjectField<'p>>,
) -> ObjectLayer<'p> {
    ObjectLayer {
        is_top: false,
        locals: &[],
        base_env: Some(Gc::from(base)),
        env: OnceCell::from(Gc::from(cached)),
        fields,
        asserts: &[],
    }
}

fn check_trace_thunk(which: u8) {
    let arena = Arena::new();
    let interner = StrInterner::new();
    let f = interner.intern(&arena, "f");
    let null_expr: &ir::Expr<'_> = arena.alloc(ir::Expr::Null);
    let env = fresh_env();
    let func: GcView<FuncData<'_>> = GcView::kani_unmanaged(FuncData::new(&[], FuncKind::Identity { name: None }));
    let (a0, a1) = (fresh_thunk(), fresh_thunk());
    let arr: GcView<ArrayData<'_>> = GcView::kani_unmanaged(Box::new([]));
    let obj: GcView<ObjectData<'_>> = GcView::kani_unmanaged(ObjectData::new_empty());
    let thunk = match which {
        0 => ThunkData::new_done(ValueData::Array(Gc::from(&arr))),
        1 => ThunkData::new_done(ValueData::Object(Gc::from(&obj))),
        2 => ThunkData::new_done(ValueData::Function(Gc::from(&func))),
        3 => ThunkData::new_done(ValueData::Number(1.0)),
        4 => ThunkData::new_pending_expr(null_expr, Gc::from(&env)),
        5 => ThunkData::new_pending_field_plus(null_expr, f, Gc::from(&env)),
        6 => ThunkData::new_pending_call(Gc::from(&func), Box::new([Gc::from(&a0), Gc::from(&a1)])),
        _ => {
            let t = ThunkData::new_pending_expr(null_expr, Gc::from(&env));
            let s = t.switch_state(); // now InProgress; the payload (and its handle) moved out
            core::mem::forget(s);
            t
        }
    };
    kani_trace_count(&thunk);
    let expect = |hit: bool| if hit { 1 } else { 0 };
    assert!(arr.kani_visits() == expect(which == 0), "array handle of a Done(Array) value counted once");
    assert!(obj.kani_visits() == expect(which == 1), "object handle counted once");
    assert!(func.kani_visits() == expect(which == 2 || which == 6), "function handle counted once");
    assert!(env.kani_visits() == expect(which == 4 || which == 5), "environment handle of a pending thunk counted once");
    assert!(a0.kani_visits() == expect(which == 6) && a1.kani_visits() == expect(which == 6), "each call argument counted once");
    let queued = kani_trace_mark_queue_len(&thunk);
    let want = match which { 0 | 1 | 2 | 4 | 5 => 1, 6 => 3, _ => 0 };
    assert!(queued == want, "the mark pass reaches exactly the same handles");
    kani::cover!(true, "value traced");
    core::mem::forget(thunk);
    core::mem::forget((env, func, a0, a1, arr, obj));
}

// @harness id=c03_trace_done_values props=C03 tier=quick cap=1500
// @desc GcTrace of ThunkData / ThunkState::Done / ValueData, for each of the variants Array / Object / Function / Number (enumerated): the count pass (real GcCountCtx) visits the one Gc handle held by the value exactly once (visits == 1 on the distinct target, 0 on the others) and the mark pass (real GcMarkCtx) queues exactly that target; a number holds none
// @bound one value per query, 4 value variants
// @funcs <ThunkData as GcTrace>::trace, <ThunkState as GcTrace>::trace, <ValueData as GcTrace>::trace, GcCountCtx::visit_obj, GcMarkCtx::visit_obj
eval_stubs! {
#[kani::proof]
#[kani::unwind(5)]
fn c03_trace_done_values() {
    // the variant is enumerated, not symbolic: a symbolic variant of these large recursive enums costs
    // CBMC 20 M variables (out of memory); the set of variants is finite, so the enumeration is complete
    check_trace_thunk(0);
    check_trace_thunk(1);
    check_trace_thunk(2);
    check_trace_thunk(3);
}
}

// @harness id=c03_trace_pending_thunks props=C03 tier=quick cap=1500
// @desc GcTrace of PendingThunk::Expr and ::FieldPlus (both enumerated): the environment handle is visited exactly once by the count and the mark pass
// @bound 2 pending variants
// @funcs <PendingThunk as GcTrace>::trace
eval_stubs! {
#[kani::proof]
#[kani::unwind(5)]
fn c03_trace_pending_thunks() {
    check_trace_thunk(4);
    check_trace_thunk(5);
}
}

// @harness id=c03_trace_call_thunk props=C03 tier=quick cap=1500
// @desc GcTrace of PendingThunk::Call with two arguments: the function handle and each argument handle are visited exactly once (3 targets); a thunk that is InProgress holds no handle
// @bound call thunk with 2 arguments; InProgress thunk
// @funcs <PendingThunk as GcTrace>::trace, <[T] as GcTrace>::trace, <Box<T> as GcTrace>::trace
eval_stubs! {
#[kani::proof]
#[kani::unwind(5)]
fn c03_trace_call_thunk() {
    check_trace_thunk(6);
    check_trace_thunk(7);
}
}

// @harness id=c03_trace_env_and_func props=C03 tier=quick cap=1500
// @desc GcTrace of ThunkEnv / ThunkEnvData / ThunkEnvObject and of FuncData / FuncKind::Normal: the parent environment, each bound variable (2), the object and the top object of an object environment, and the closure environment of a function are each visited exactly once
// @bound environment with a parent, 2 variables and an object part; one normal function
// @funcs <ThunkEnv as GcTrace>::trace, <ThunkEnvData as GcTrace>::trace, <ThunkEnvObject as GcTrace>::trace, <FuncData as GcTrace>::trace, <FuncKind as GcTrace>::trace
eval_stubs! {
#[kani::proof]
#[kani::unwind(6)]
fn c03_trace_env_and_func() {
    let arena = Arena::new();
    let interner = StrInterner::new();
    let (x, y) = (interner.intern(&arena, "x"), interner.intern(&arena, "y"));
    let null_expr: &ir::Expr<'_> = arena.alloc(ir::Expr::Null);
    let parent = GcView::kani_unmanaged(ThunkEnv::from(ThunkEnvData::new(None)));
    let (vx, vy) = (fresh_thunk(), fresh_thunk());
    let obj: GcView<ObjectData<'_>> = GcView::kani_unmanaged(ObjectData::new_empty());
    let top: GcView<ObjectData<'_>> = GcView::kani_unmanaged(ObjectData::new_empty());
    let with_object: bool = kani::any();
    let mut data = ThunkEnvData::new(Some(Gc::from(&parent)));
    data.set_var(x, Gc::from(&vx));
    data.set_var(y, Gc::from(&vy));
    if with_object {
        data.set_object(crate::program::data::ThunkEnvObject { object: Gc::from(&obj), layer_i: 0, top: Gc::from(&top) });
    }
    let env = ThunkEnv::from(data);
    kani_trace_count(&env);
    assert!(parent.kani_visits() == 1, "parent environment counted once");
    assert!(vx.kani_visits() == 1 && vy.kani_visits() == 1, "each variable counted once");
    assert!(obj.kani_visits() == with_object as usize && top.kani_visits() == with_object as usize, "object and top object counted once each");
    assert!(kani_trace_mark_queue_len(&env) == 3 + 2 * (with_object as usize), "mark pass reaches the same handles");
    // a normal function keeps its closure environment alive
    let closure = fresh_env();
    let func = FuncData::new(&[], FuncKind::Normal { name: None, body: null_expr, env: Gc::from(&closure) });
    kani_trace_count(&func);
    assert!(closure.kani_visits() == 1, "closure environment counted once");
    kani::cover!(with_object, "environment inside an object");
    core::mem::forget((env, func));
    core::mem::forget((parent, vx, vy, obj, top, closure));
}
}

// @harness id=c03_trace_object props=C03 tier=attempt cap=5400 mem=40
// @desc GcTrace of ObjectData / ObjectLayer / ObjectField / ObjectFieldData on a 2-layer object: each layer's base environment and cached environment, and for each of two fields its own base environment and its cached thunk, are visited exactly once (10 distinct handles); Removed markers hold none
// @bound 2 layers, 2 Normal fields in the self layer, 1 Normal field + 1 Removed marker in the super layer
// @funcs <ObjectData as GcTrace>::trace, <ObjectLayer as GcTrace>::trace, <ObjectField as GcTrace>::trace, <ObjectFieldData as GcTrace>::trace
eval_stubs! {
#[kani::proof]
#[kani::unwind(9)]
fn c03_trace_object() {
    let arena = Arena::new();
    let interner = StrInterner::new();
    let (f, g) = (interner.intern(&arena, "f"), interner.intern(&arena, "g"));
    let envs: [GcView<ThunkEnv<'_>>; 7] = core::array::from_fn(|_| fresh_env());
    let thunks: [GcView<ThunkData<'_>>; 3] = core::array::from_fn(|_| fresh_thunk());
    let self_fields = FHashMap::kani_from_slots([Some((f, mk_field(&envs[2], &thunks[0]))), Some((g, mk_field(&envs[3], &thunks[1]))), None, None]);
    let super_fields = FHashMap::kani_from_slots([Some((f, mk_field(&envs[6], &thunks[2]))), Some((g, ObjectField::Removed(1))), None, None]);
    let obj = ObjectData {
        self_layer: mk_traced_layer(&envs[0], &envs[1], self_fields),
        super_layers: vec![mk_traced_layer(&envs[4], &envs[5], super_fields)],
        fields_order: OnceCell::new(),
        asserts_checked: Cell::new(true),
    };
    kani_trace_count(&obj);
    let mut k = 0;
    while k < 7 {
        assert!(envs[k].kani_visits() == 1, "every environment handle (layer base, layer cache, field base) counted exactly once");
        k += 1;
    }
    k = 0;
    while k < 3 {
        assert!(thunks[k].kani_visits() == 1, "every cached field thunk counted exactly once");
        k += 1;
    }
    assert!(kani_trace_mark_queue_len(&obj) == 10, "mark pass reaches the same 10 handles");
    kani::cover!(true, "object traced");
    core::mem::forget(obj);
    core::mem::forget((envs, thunks));
}
}

// @harness id=c03_trace_object_small props=C03 tier=quick cap=1500
// @desc GcTrace of ObjectData / ObjectLayer / ObjectField / ObjectFieldData on a one-layer object with one field: the layer's base environment, its cached environment, the field's own base environment (set for fields of object comprehensions) and the field's cached thunk are each visited exactly once by the count pass, and the mark pass queues those 4 handles
// @bound 1 layer, 1 Normal field; 4 distinct handles
// @funcs <ObjectData as GcTrace>::trace, <ObjectLayer as GcTrace>::trace, <ObjectField as GcTrace>::trace, <ObjectFieldData as GcTrace>::trace
eval_stubs! {
#[kani::proof]
#[kani::unwind(7)]
fn c03_trace_object_small() {
    let arena = Arena::new();
    let interner = StrInterner::new();
    let f = interner.intern(&arena, "f");
    let (e0, e1, e2) = (fresh_env(), fresh_env(), fresh_env());
    let t0 = fresh_thunk();
    let fields = FHashMap::kani_from_slots([Some((f, mk_field(&e2, &t0))), None, None, None]);
    let obj = ObjectData {
        self_layer: mk_traced_layer(&e0, &e1, fields),
        super_layers: Vec::new(),
        fields_order: OnceCell::new(),
        asserts_checked: Cell::new(true),
    };
    kani_trace_count(&obj);
    assert!(e0.kani_visits() == 1, "layer base environment counted once");
    assert!(e1.kani_visits() == 1, "layer cached environment counted once");
    assert!(e2.kani_visits() == 1, "field base environment counted once");
    assert!(t0.kani_visits() == 1, "field thunk counted once");
    assert!(kani_trace_mark_queue_len(&obj) == 4, "mark pass reaches the same 4 handles");
    kani::cover!(true, "object traced");
    core::mem::forget(obj);
    core::mem::forget((e0, e1, e2, t0));
}
}

// @harness id=c03_must_fail props=C03 tier=quick cap=1500 expect=fail
// @desc vacuity twin of the trace harnesses
eval_stubs! {
#[kani::proof]
#[kani::unwind(5)]
fn c03_must_fail() {
    let env = fresh_env();
    let arena = Arena::new();
    let null_expr: &ir::Expr<'_> = arena.alloc(ir::Expr::Null);
    let thunk = ThunkData::new_pending_expr(null_expr, Gc::from(&env));
    kani_trace_count(&thunk);
    core::mem::forget(thunk);
    core::mem::forget(env);
    assert!(false, "reachability witness");
}
}
