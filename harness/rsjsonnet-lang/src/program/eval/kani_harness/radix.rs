//! C20 / C01 / C18: `parse_num_radix` (std.parseHex, std.parseOctal).
use super::*;

fn ref_digit(b: u8, radix: u32) -> Option<u32> {
    let v = match b {
        b'0'..=b'9' => (b - b'0') as u32,
        b'a'..=b'f' => (b - b'a') as u32 + 10,
        b'A'..=b'F' => (b - b'A') as u32 + 10,
        _ => return None,
    };
    if v < radix { Some(v) } else { None }
}

fn check_radix_value<const RADIX: u8>(bytes: &[u8]) {
    let Ok(s) = core::str::from_utf8(bytes) else { return };
    let got = parse_num_radix::<RADIX>(s);
    // reference: exact integer value in u64 (at most 8 digits), first offending character otherwise
    let mut value: u64 = 0;
    let mut bad: Option<usize> = None;
    let mut i = 0;
    while i < bytes.len() {
        if bad.is_none() {
            match ref_digit(bytes[i], RADIX as u32) {
                Some(d) => value = value * (RADIX as u64) + d as u64,
                None => bad = Some(i),
            }
        }
        i += 1;
    }
    match got {
        Ok(x) => {
            assert!(!bytes.is_empty() && bad.is_none(), "Ok only for a non-empty string of digits");
            assert!(x == value as f64, "value is the exact integer");
            kani::cover!(value > 0xFFF, "more than three significant hex digits");
            kani::cover!(bytes[0] == b'0' && value > 0, "leading zeros ignored");
        }
        Err(ParseNumRadixError::Empty) => assert!(bytes.is_empty(), "Empty only for the empty string"),
        Err(ParseNumRadixError::InvalidDigit(c)) => {
            assert!(bad.is_some(), "InvalidDigit only if there is a non-digit");
            let rest = &s[bad.unwrap()..];
            assert!(rest.chars().next() == Some(c), "the first non-digit is the one reported");
            kani::cover!(c as u32 > 0x7F, "non-ASCII offending character");
        }
        Err(ParseNumRadixError::Overflow) => assert!(false, "8 digits cannot overflow"),
    }
}

// @harness id=c20_radix_hex_value props=C20,C18,C01:thorough tier=quick cap=1500
// @desc parse_num_radix::<16> (std.parseHex) on every valid-UTF-8 string of 0..=5 bytes: Ok(x) iff the string is a non-empty sequence of hex digits and x is its exact integer value; otherwise Empty or InvalidDigit(first offending character); never a panic
// @bound strings of 0..=5 arbitrary bytes (symbolic length); unwind 8
// @funcs parse_num_radix::<16>
#[kani::proof]
#[kani::unwind(8)]
fn c20_radix_hex_value() {
    let buf: [u8; 5] = kani::any();
    let len: usize = kani::any();
    kani::assume(len <= 5);
    check_radix_value::<16>(&buf[..len]);
}

// @harness id=c20_radix_oct_value props=C20,C18,C01:thorough tier=quick cap=1500
// @desc parse_num_radix::<8> (std.parseOctal) on every valid-UTF-8 string of 0..=5 bytes against the same reference (digits 8 and 9 are invalid)
// @bound strings of 0..=5 arbitrary bytes
// @funcs parse_num_radix::<8>
#[kani::proof]
#[kani::unwind(8)]
fn c20_radix_oct_value() {
    let buf: [u8; 5] = kani::any();
    let len: usize = kani::any();
    kani::assume(len <= 5);
    check_radix_value::<8>(&buf[..len]);
}

fn check_radix_cut<const RADIX: u8, const PREFIX: usize>() {
    // PREFIX concrete '1' digits followed by ONE arbitrary character (any scalar value, 1-4 bytes): with
    // PREFIX = 31 (hex) / 41 (octal) the 128-bit cut (byte 32 / 42) falls inside that character whenever it is
    // multi-byte. The string is built by pushes so that the prefix bytes stay concrete for CBMC.
    let mut st = String::with_capacity(PREFIX + 8);
    let mut i = 0;
    while i < PREFIX {
        st.push('1');
        i += 1;
    }
    let c: char = kani::any();
    st.push(c);
    let is_digit = c.to_digit(RADIX as u32).is_some();
    let got = parse_num_radix::<RADIX>(&st);
    match got {
        Ok(x) => {
            assert!(is_digit, "Ok only for digit strings");
            assert!(x.is_finite() && x > 0.0, "finite positive value");
            kani::cover!(true, "digit string reaching the cut accepted");
        }
        Err(ParseNumRadixError::InvalidDigit(bad)) => {
            assert!(!is_digit && bad == c, "the offending character is reported");
            kani::cover!(c.len_utf8() == 2, "two-byte character straddling the 128-bit cut");
            kani::cover!(c.len_utf8() == 4, "four-byte character straddling the 128-bit cut");
        }
        Err(_) => assert!(false, "neither empty nor overflowing"),
    }
    core::mem::forget(st);
}

// @harness id=c20_radix_hex_cut props=C20,C18,C01:thorough tier=attempt cap=5400 mem=40
// @desc parse_num_radix::<16> (std.parseHex) on 31 hex digits followed by one arbitrary character: no panic although for a multi-byte character the 32-digit (128-bit) cut at byte 32 falls inside it; Ok iff it is a hex digit, otherwise exactly that character is reported
// @bound 31 fixed digits + one arbitrary Unicode scalar value; unwind 36
// @funcs parse_num_radix::<16>
#[kani::proof]
#[kani::unwind(36)]
fn c20_radix_hex_cut() {
    check_radix_cut::<16, 31>();
}

// @harness id=c20_radix_oct_cut props=C20,C18,C01:thorough tier=attempt cap=5400 mem=40
// @desc parse_num_radix::<8> (std.parseOctal) on 41 octal digits followed by one arbitrary character: no panic around the 42-digit cut at byte 42; Ok iff it is an octal digit
// @bound 41 fixed digits + one arbitrary Unicode scalar value; unwind 46
// @funcs parse_num_radix::<8>
#[kani::proof]
#[kani::unwind(46)]
fn c20_radix_oct_cut() {
    check_radix_cut::<8, 41>();
}
