//! C02: kernels of the core language with arithmetic / index content:
//! the arithmetic, bitwise and shift operators (`do_binary_op`), unary operators
//! are inline in `run()` and not reachable here.
use super::*;

const SAFE_MAX: f64 = 9007199254740991.0; // 2^53 - 1

fn push2(ev: &mut Evaluator<'_, '_>, x: f64, y: f64) {
    ev.value_stack.push(ValueData::Number(x));
    ev.value_stack.push(ValueData::Number(y));
}

fn check_binary_arith(which: u8) {
    let arena = Arena::new();
    let mut program = bare_program(&arena);
    let mut ev = bare_evaluator(&mut program);
    let x = any_finite();
    let y = any_finite();
    push2(&mut ev, x, y);
    let (op, want) = match which {
        0 => (ast::BinaryOp::Add, x + y),
        1 => (ast::BinaryOp::Sub, x - y),
        2 => (ast::BinaryOp::Mul, x * y),
        _ => (ast::BinaryOp::Div, x / y),
    };
    let res = ev.do_binary_op(None, op);
    let must_fail = !want.is_finite() || (which == 3 && y == 0.0);
    if res.is_ok() {
        assert!(!must_fail, "non-finite results and division by zero are errors");
        let r = top_number(&ev);
        assert!(r.is_some(), "a number is pushed");
        let r = r.unwrap();
        assert!(r == want && r.is_sign_negative() == want.is_sign_negative(), "IEEE-754 result");
        assert!(ev.value_stack.len() == 1, "operands consumed");
        kani::cover!(r != 0.0, "non-zero result");
    } else {
        assert!(must_fail, "errors only for non-finite results and division by zero");
        kani::cover!(true, "error reported");
    }
    core::mem::forget(res);
    core::mem::forget(ev);
    core::mem::forget(program);
}

// @harness id=c02_binary_addsub props=C02,C06,C01 tier=thorough cap=1200
// @desc do_binary_op for + and - on any two finite numbers: the result is the IEEE-754 double result when that is finite, and an overflowing result is an error (never a value)
// @bound all pairs of finite doubles, operator symbolic over {+,-}
// @funcs Evaluator::do_binary_op, Evaluator::check_number_value
// @out % (fmod is not decidable by CBMC here), comparison operators (inline in Evaluator::run)
eval_stubs! {
#[kani::proof]
#[kani::unwind(3)]
fn c02_binary_addsub() {
    let which: u8 = kani::any();
    kani::assume(which < 2);
    check_binary_arith(which);
}
}

// @harness id=c02_binary_mul props=C02:thorough,C06,C01:thorough tier=quick cap=1800
// @desc do_binary_op for * on any two finite numbers: IEEE-754 product when finite, otherwise an error
// @bound all pairs of finite doubles
// @funcs Evaluator::do_binary_op, Evaluator::check_number_value
eval_stubs! {
#[kani::proof]
#[kani::unwind(3)]
fn c02_binary_mul() {
    check_binary_arith(2);
}
}

// @harness id=c02_binary_div props=C02,C06 tier=attempt cap=3600
// @desc do_binary_op for / on any two finite numbers: division by +0 or -0 is an error, otherwise the IEEE-754 quotient when finite, otherwise an error
// @bound all pairs of finite doubles
// @funcs Evaluator::do_binary_op, Evaluator::check_number_value
eval_stubs! {
#[kani::proof]
#[kani::unwind(3)]
fn c02_binary_div() {
    check_binary_arith(3);
}
}

// @harness id=c02_binary_div_gate props=C02,C06,C01:thorough tier=quick cap=1200
// @desc do_binary_op for /: division by +0 or -0 is always an error and Ok implies a finite result (the quotient itself is checked in the thorough tier: the double-precision divider is expensive to bit-blast)
// @bound all pairs of finite doubles
// @funcs Evaluator::do_binary_op, Evaluator::check_number_value
eval_stubs! {
#[kani::proof]
#[kani::unwind(3)]
fn c02_binary_div_gate() {
    let arena = Arena::new();
    let mut program = bare_program(&arena);
    let mut ev = bare_evaluator(&mut program);
    let x = any_finite();
    let y = any_finite();
    push2(&mut ev, x, y);
    let res = ev.do_binary_op(None, ast::BinaryOp::Div);
    if res.is_ok() {
        assert!(y != 0.0, "division by zero is an error");
        let r = top_number(&ev);
        assert!(r.is_some() && r.unwrap().is_finite(), "Ok implies a finite quotient");
        kani::cover!(true, "quotient");
    } else {
        kani::cover!(y == 0.0 && y.is_sign_negative(), "division by -0");
    }
    core::mem::forget(res);
    core::mem::forget(ev);
    core::mem::forget(program);
}
}

fn check_bitwise(which: u8) {
    let arena = Arena::new();
    let mut program = bare_program(&arena);
    let mut ev = bare_evaluator(&mut program);
    let x = any_finite();
    let y = any_finite();
    push2(&mut ev, x, y);
    let op = match which {
        0 => ast::BinaryOp::BitwiseAnd,
        1 => ast::BinaryOp::BitwiseOr,
        2 => ast::BinaryOp::BitwiseXor,
        3 => ast::BinaryOp::Shl,
        _ => ast::BinaryOp::Shr,
    };
    let res = ev.do_binary_op(None, op);
    let safe = x >= -SAFE_MAX && x <= SAFE_MAX && y >= -SAFE_MAX && y <= SAFE_MAX;
    let xi = x as i64; // truncation towards zero (exact inside the safe range)
    let yi = y as i64;
    let want: Option<i64> = if !safe {
        None
    } else {
        match which {
            0 => Some(xi & yi),
            1 => Some(xi | yi),
            2 => Some(xi ^ yi),
            3 => {
                if y < 0.0 {
                    None
                } else {
                    let sh = (yi & 63) as u32;
                    let r = xi.wrapping_shl(sh);
                    if r.wrapping_shr(sh) != xi { None } else { Some(r) }
                }
            }
            _ => {
                if y < 0.0 { None } else { Some(xi.wrapping_shr((yi & 63) as u32)) }
            }
        }
    };
    if res.is_ok() {
        assert!(want.is_some(), "Ok only where the specification defines a result");
        let r = top_number(&ev);
        assert!(r.is_some() && r.unwrap() == want.unwrap() as f64, "integer result of the specification");
        kani::cover!(xi < 0, "negative left operand");
    } else {
        assert!(want.is_none(), "an error only where the specification has none");
        kani::cover!(!safe, "operand outside the safe integer range");
    }
    core::mem::forget(res);
    core::mem::forget(ev);
    core::mem::forget(program);
}

// @harness id=c02_binary_bitwise props=C02,C01:thorough tier=quick cap=1500
// @desc do_binary_op for & | ^ on any two finite numbers against the specification: operands are truncated to 64-bit integers and must lie within +-(2^53-1), else an error; the result is the integer operation as a double
// @bound all pairs of finite doubles, operator symbolic over {&,|,^}
// @funcs Evaluator::do_binary_op, Evaluator::safe_f64_to_i64
eval_stubs! {
#[kani::proof]
#[kani::unwind(3)]
fn c02_binary_bitwise() {
    let which: u8 = kani::any();
    kani::assume(which < 3);
    check_bitwise(which);
}
}

// @harness id=c02_binary_shift props=C02,C01:thorough tier=quick cap=1500
// @desc do_binary_op for << and >> on any two finite numbers against the specification: both operands within +-(2^53-1), the count is taken modulo 64, a negative count is an error (a count of -0 is not negative), << must not lose bits, >> is arithmetic
// @bound all pairs of finite doubles, operator symbolic over {<<,>>}
// @funcs Evaluator::do_binary_op, Evaluator::safe_f64_to_i64
eval_stubs! {
#[kani::proof]
#[kani::unwind(3)]
fn c02_binary_shift() {
    let which: u8 = kani::any();
    kani::assume(which == 3 || which == 4);
    check_bitwise(which);
}
}

// @harness id=c02_slice_range props=C02,C18,C01 tier=quick cap=1200
// @desc get_slice_range (indexing of s[a:b:c] and std.slice) for any length and any optional finite-or-not start/end/step: no panic; Ok((s,e,st)) implies s <= e (so `e - s` cannot underflow), st >= 1 (so step_by cannot panic), and s/e follow the specification: negative values count from the end and clamp at 0, an absent end is unbounded, an end before the start is clamped to the start; a non-integer or non-finite bound and a step < 1 are errors
// @bound all usize lengths (value oracle: lengths <= 2^52), all doubles (NaN and infinities included) for start/end/step
// @funcs Evaluator::get_slice_range
eval_stubs! {
#[kani::proof]
#[kani::unwind(3)]
fn c02_slice_range() {
    let arena = Arena::new();
    let mut program = bare_program(&arena);
    let mut ev = bare_evaluator(&mut program);
    let len: usize = kani::any();
    let start: Option<f64> = if kani::any() { Some(kani::any()) } else { None };
    let end: Option<f64> = if kani::any() { Some(kani::any()) } else { None };
    let step: Option<f64> = if kani::any() { Some(kani::any()) } else { None };
    let res = ev.get_slice_range(len, start, end, step, None);
    let is_int = |v: f64| v.is_finite() && v.trunc() == v;
    let bad = start.is_some_and(|v| !is_int(v)) || end.is_some_and(|v| !is_int(v)) || step.is_some_and(|v| !is_int(v) || v < 1.0);
    match &res {
        Ok((s, e, st)) => {
            assert!(!bad, "non-integer bounds and steps < 1 are errors");
            assert!(*s <= *e, "start <= end");
            assert!(*st >= 1, "step >= 1");
            // the value oracle below compares through f64, which is exact only for lengths below 2^53
            // (no string or array can be longer); the no-panic / ordering claims above hold for every usize
            kani::assume(len <= (1usize << 52));
            // specification of the start
            let want_s = match start {
                None => 0usize,
                Some(v) if v < 0.0 => {
                    let back = -v; // positive integer
                    if back >= len as f64 { 0 } else { len - (back as usize) }
                }
                Some(v) => if v >= 18446744073709551615.0 { usize::MAX } else { v as usize },
            };
            assert!(*s == want_s, "start: negative counts from the end, clamped at 0");
            let want_e = match end {
                None => usize::MAX,
                Some(v) if v < 0.0 => {
                    let back = -v;
                    let e0 = if back >= len as f64 { 0 } else { len - (back as usize) };
                    if e0 < want_s { want_s } else { e0 }
                }
                Some(v) => {
                    let e0 = if v >= 18446744073709551615.0 { usize::MAX } else { v as usize };
                    if e0 < want_s { want_s } else { e0 }
                }
            };
            assert!(*e == want_e, "end: negative counts from the end, never before the start");
            kani::cover!(start.is_some_and(|v| v < 0.0) && *s > 0, "negative start inside the string");
            kani::cover!(end.is_some_and(|v| v < 0.0) && *e > *s, "negative end after the start");
        }
        Err(_) => {
            assert!(bad, "an error needs a malformed bound or step");
            kani::cover!(step.is_some_and(|v| v == 0.0), "zero step rejected");
        }
    }
    core::mem::forget(res);
    core::mem::forget(ev);
    core::mem::forget(program);
}
}

// @harness id=c02_in_operator props=C02,C07 tier=quick cap=1500
// @desc do_binary_op for `"f" in obj` on a one-layer object whose field f is present with ANY visibility (default, hidden `::`, forced `:::`) and `"g" in obj` for an absent field: `in` tests existence, not visibility, so the results are true and false
// @bound one-layer objects, field f with symbolic visibility, field g absent
// @funcs Evaluator::do_binary_op (In arm), ObjectData::has_field
eval_stubs! {
#[kani::proof]
#[kani::unwind(6)]
fn c02_in_operator() {
    let arena = Arena::new();
    let mut program = bare_program(&arena);
    let f = program.str_interner.intern(&arena, "f");
    let vis: u8 = kani::any();
    kani::assume(vis < 3);
    let visibility = match vis {
        0 => ast::Visibility::Default,
        1 => ast::Visibility::Hidden,
        _ => ast::Visibility::ForceVisible,
    };
    let field = ObjectField::Normal(ObjectFieldData { base_env: None, visibility, expr: None, thunk: OnceCell::new() });
    let obj = ObjectData {
        self_layer: ObjectLayer {
            is_top: false,
            locals: &[],
            base_env: None,
            env: OnceCell::new(),
            fields: FHashMap::kani_from_slots([Some((f, field)), None, None, None]),
            asserts: &[],
        },
        super_layers: Vec::new(),
        fields_order: OnceCell::new(),
        asserts_checked: Cell::new(true),
    };
    let obj = GcView::kani_unmanaged(obj);
    let keep = obj.clone();
    let mut ev = bare_evaluator(&mut program);
    let ask_f: bool = kani::any();
    ev.value_stack.push(ValueData::String(if ask_f { "f".into() } else { "g".into() }));
    ev.value_stack.push(ValueData::Object(Gc::from(&obj)));
    let res = ev.do_binary_op(None, ast::BinaryOp::In);
    assert!(res.is_ok(), "string in object is defined");
    assert!(matches!(ev.value_stack.last(), Some(ValueData::Bool(b)) if *b == ask_f), "`in` sees every existing field, hidden ones included, and nothing else");
    kani::cover!(ask_f && vis == 1, "hidden field found by `in`");
    kani::cover!(!ask_f, "absent field");
    core::mem::forget(res);
    core::mem::forget(ev);
    core::mem::forget(program);
    core::mem::forget((obj, keep));
}
}

// @harness id=c02_must_fail props=C02 tier=quick cap=1200 expect=fail
// @desc vacuity twin for the binary-operator harnesses
eval_stubs! {
#[kani::proof]
#[kani::unwind(3)]
fn c02_must_fail() {
    let arena = Arena::new();
    let mut program = bare_program(&arena);
    let mut ev = bare_evaluator(&mut program);
    push2(&mut ev, any_finite(), any_finite());
    let res = ev.do_binary_op(None, ast::BinaryOp::Shl);
    core::mem::forget(res);
    core::mem::forget(ev);
    core::mem::forget(program);
    assert!(false, "reachability witness");
}
}
