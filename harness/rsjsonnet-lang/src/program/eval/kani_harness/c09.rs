//! C09: static scoping. `Analyzer::analyze` is run on small REAL syntax trees of
//! fixed shape in which every binder and every use site carries a SYMBOLIC name
//! (one of four interned identifiers, the fourth never bound), and the verdict is
//! compared with the scoping judgment of the specification evaluated on the
//! template's name vector: rejected exactly when a name is unbound at its use
//! site, a binder is repeated within one scope, a positional argument follows a
//! named one, or an import path is computed - wherever that occurs.
use super::*;
use crate::program::analyze::Analyzer;
use crate::program::AnalyzeError;
use crate::FHashSet;

struct Names<'p> {
    n: [InternedStr<'p>; 4],
    span: SpanId,
}

fn names<'p>(arena: &'p Arena, program: &mut Program<'p>) -> Names<'p> {
    // all of length 1, so that error values copy a constant number of bytes
    let n = [
        program.str_interner.intern(arena, "a"),
        program.str_interner.intern(arena, "b"),
        program.str_interner.intern(arena, "c"),
        program.str_interner.intern(arena, "u"),
    ];
    let (ctx, _) = program.span_mgr.insert_source_context(8);
    let span = program.span_mgr.intern_span(ctx, 0, 1);
    Names { n, span }
}

fn any_idx(limit: usize) -> usize {
    let i: usize = kani::any();
    kani::assume(i < limit);
    i
}

impl<'p> Names<'p> {
    fn ident(&self, i: usize) -> ast::Ident<'p> {
        ast::Ident { value: self.n[i], span: self.span }
    }

    fn var<'ast>(&self, i: usize) -> ast::Expr<'p, 'ast> {
        ast::Expr { kind: ast::ExprKind::Ident(self.ident(i)), span: self.span }
    }

    fn null<'ast>(&self) -> ast::Expr<'p, 'ast> {
        ast::Expr { kind: ast::ExprKind::Null, span: self.span }
    }
}

fn analyze_with_outer<'p>(
    program: &Program<'p>,
    nm: &Names<'p>,
    outer_has_c: bool,
    root: &ast::Expr<'p, '_>,
) -> Result<&'p ir::Expr<'p>, AnalyzeError> {
    let mut env = FHashSet::default();
    if outer_has_c {
        env.insert(nm.n[2]);
    }
    Analyzer::new(program).analyze(root, env)
}

// @harness id=c09_local_scope props=C09 tier=quick cap=1500 fs=64
// @desc Analyzer on `local X = E1, Y = E2; B` with X, Y, E1, E2, B symbolic names (E1, E2, B are variable references; one of the four names is never bound; the outer scope holds `c` or not): rejected as RepeatedLocalName iff X == Y, else as UnknownVariable iff one of the three references names neither X, Y nor an outer variable (bindings are mutually recursive: E1 may use Y), else accepted
// @bound one template, 5 symbolic names over 4 identifiers, symbolic outer scope
// @funcs Analyzer::analyze, Analyzer::analyze_expr (Local, Ident arms)
eval_stubs! {
#[kani::proof]
#[kani::unwind(7)]
fn c09_local_scope() {
    let arena = Arena::new();
    let mut program = bare_program(&arena);
    let nm = names(&arena, &mut program);
    let (x, y) = (any_idx(3), any_idx(3));
    let (e1, e2, b) = (any_idx(4), any_idx(4), any_idx(4));
    let outer_has_c: bool = kani::any();
    let binds = [
        ast::Bind { name: nm.ident(x), params: None, value: nm.var(e1) },
        ast::Bind { name: nm.ident(y), params: None, value: nm.var(e2) },
    ];
    let body = nm.var(b);
    let root = ast::Expr { kind: ast::ExprKind::Local(&binds, &body), span: nm.span };
    let res = analyze_with_outer(&program, &nm, outer_has_c, &root);
    let bound = |k: usize| k == x || k == y || (k == 2 && outer_has_c);
    if x == y {
        assert!(matches!(&res, Err(AnalyzeError::RepeatedLocalName { .. })), "a local repeated within one scope is rejected");
    } else if !bound(e1) || !bound(e2) || !bound(b) {
        assert!(matches!(&res, Err(AnalyzeError::UnknownVariable { .. })), "an unbound variable is rejected wherever it occurs");
        kani::cover!(bound(e1) && bound(e2) && !bound(b), "only the body is unbound");
    } else {
        assert!(matches!(&res, Ok(ir::Expr::Local { .. })), "a well-scoped program is accepted");
        kani::cover!(e1 == y && e2 == x, "mutually recursive bindings");
        kani::cover!(b == 2 && outer_has_c && x != 2 && y != 2, "body uses an outer variable");
    }
    core::mem::forget(res);
    core::mem::forget(program);
}
}

// @harness id=c09_function_scope props=C09 tier=quick cap=1500 fs=64
// @desc Analyzer on `function(P, Q = D) B` with symbolic parameter names and references: RepeatedParamName iff P == Q; else UnknownVariable iff the default D or the body B names neither P, Q nor an outer variable (a default may refer to any parameter); else accepted
// @bound one template, 4 symbolic names over 4 identifiers
// @funcs Analyzer::analyze_function, Analyzer::analyze_expr (Func arm)
eval_stubs! {
#[kani::proof]
#[kani::unwind(7)]
fn c09_function_scope() {
    let arena = Arena::new();
    let mut program = bare_program(&arena);
    let nm = names(&arena, &mut program);
    let (p, q) = (any_idx(3), any_idx(3));
    let (d, b) = (any_idx(4), any_idx(4));
    let outer_has_c: bool = kani::any();
    let params = [
        ast::Param { name: nm.ident(p), default_value: None },
        ast::Param { name: nm.ident(q), default_value: Some(nm.var(d)) },
    ];
    let body = nm.var(b);
    let root = ast::Expr { kind: ast::ExprKind::Func(&params, &body), span: nm.span };
    let res = analyze_with_outer(&program, &nm, outer_has_c, &root);
    let bound = |k: usize| k == p || k == q || (k == 2 && outer_has_c);
    if p == q {
        assert!(matches!(&res, Err(AnalyzeError::RepeatedParamName { .. })), "a repeated parameter is rejected");
    } else if !bound(d) || !bound(b) {
        assert!(matches!(&res, Err(AnalyzeError::UnknownVariable { .. })), "unbound variable in a default or in the body");
        kani::cover!(bound(b) && !bound(d), "only the default argument is unbound");
    } else {
        assert!(matches!(&res, Ok(ir::Expr::Func { .. })), "accepted");
        kani::cover!(d == p, "default refers to an earlier parameter");
        kani::cover!(d == q, "default refers to its own parameter");
    }
    core::mem::forget(res);
    core::mem::forget(program);
}
}

// @harness id=c09_object_scope props=C09 tier=attempt cap=5400 fs=64 mem=40
// @desc Analyzer on `{ local L = E, [K]: V, F1: W, F2: null }` with symbolic names: the computed field name K is resolved in the OUTER scope (it sees neither L nor self), the local's value, and the field bodies see L; RepeatedFieldName iff the two fixed names F1 == F2; the first failing site in source order decides the error
// @bound one template, 6 symbolic names over 4 identifiers
// @funcs Analyzer::analyze_objinside, Analyzer::analyze_expr
eval_stubs! {
#[kani::proof]
#[kani::unwind(7)]
fn c09_object_scope() {
    let arena = Arena::new();
    let mut program = bare_program(&arena);
    let nm = names(&arena, &mut program);
    let l = any_idx(3);
    let (e, k, v, w) = (any_idx(4), any_idx(4), any_idx(4), any_idx(4));
    let (f1, f2) = (any_idx(3), any_idx(3));
    let outer_has_c: bool = kani::any();
    let members = [
        ast::Member::Local(ast::ObjLocal { bind: ast::Bind { name: nm.ident(l), params: None, value: nm.var(e) } }),
        ast::Member::Field(ast::Field::Value(ast::FieldName::Expr(nm.var(k), nm.span), false, ast::Visibility::Default, nm.var(v))),
        ast::Member::Field(ast::Field::Value(ast::FieldName::Ident(nm.ident(f1)), false, ast::Visibility::Default, nm.var(w))),
        ast::Member::Field(ast::Field::Value(ast::FieldName::Ident(nm.ident(f2)), false, ast::Visibility::Hidden, nm.null())),
    ];
    let root = ast::Expr { kind: ast::ExprKind::Object(ast::ObjInside::Members(&members)), span: nm.span };
    let res = analyze_with_outer(&program, &nm, outer_has_c, &root);
    let outer = |i: usize| i == 2 && outer_has_c;
    let inner = |i: usize| i == l || outer(i);
    // source order of the checks: local value, field 1 body, field 1 computed name, field 2 body, field 2 name, field 3 name
    if !inner(e) || !inner(v) || !outer(k) || !inner(w) {
        assert!(matches!(&res, Err(AnalyzeError::UnknownVariable { .. })), "unbound variable (a computed field name does not see object locals)");
        kani::cover!(inner(e) && inner(v) && inner(w) && k == l && !outer(k), "field-name expression uses the object local: rejected");
    } else if f1 == f2 {
        assert!(matches!(&res, Err(AnalyzeError::RepeatedFieldName { .. })), "a statically repeated field name is rejected");
    } else {
        assert!(matches!(&res, Ok(ir::Expr::Object { .. })), "accepted");
        kani::cover!(k == 2 && l != 2, "field name from the outer scope, body from the object local");
    }
    core::mem::forget(res);
    core::mem::forget(program);
}
}

// @harness id=c09_comprehension_scope props=C09 tier=attempt cap=5400 fs=64 mem=40
// @desc Analyzer on `[B for I in A1 for J in A2 if C]` with symbolic names: clauses bind left to right - A1 sees only the outer scope, A2 sees I, the condition and the body see I and J (a later binder may shadow an earlier one: no repetition error)
// @bound one template, 6 symbolic names over 4 identifiers
// @funcs Analyzer::analyze_comp_spec, Analyzer::analyze_expr (ArrayComp arm)
eval_stubs! {
#[kani::proof]
#[kani::unwind(7)]
fn c09_comprehension_scope() {
    let arena = Arena::new();
    let mut program = bare_program(&arena);
    let nm = names(&arena, &mut program);
    let (i, j) = (any_idx(3), any_idx(3));
    let (a1, a2, c, b) = (any_idx(4), any_idx(4), any_idx(4), any_idx(4));
    let outer_has_c: bool = kani::any();
    let spec = [
        ast::CompSpecPart::For(ast::ForSpec { var: nm.ident(i), inner: nm.var(a1) }),
        ast::CompSpecPart::For(ast::ForSpec { var: nm.ident(j), inner: nm.var(a2) }),
        ast::CompSpecPart::If(ast::IfSpec { cond: nm.var(c) }),
    ];
    let body = nm.var(b);
    let root = ast::Expr { kind: ast::ExprKind::ArrayComp(&body, &spec), span: nm.span };
    let res = analyze_with_outer(&program, &nm, outer_has_c, &root);
    let outer = |k: usize| k == 2 && outer_has_c;
    let ok = outer(a1) && (a2 == i || outer(a2)) && (c == i || c == j || outer(c)) && (b == i || b == j || outer(b));
    if ok {
        assert!(matches!(&res, Ok(ir::Expr::ArrayComp { .. })), "accepted");
        kani::cover!(i == j, "second clause shadows the first");
        kani::cover!(a2 == i && b == j, "left-to-right binding used");
    } else {
        assert!(matches!(&res, Err(AnalyzeError::UnknownVariable { .. })), "a clause cannot see binders to its right");
        kani::cover!(a1 == i && !outer(a1), "first generator refers to its own variable");
    }
    core::mem::forget(res);
    core::mem::forget(program);
}
}

// @harness id=c09_comprehension_single props=C09 tier=attempt cap=1500 fs=64
// @desc Analyzer on `[B for I in A]` with symbolic names: the generator's source A is resolved in the OUTER scope only (it does not see its own variable I), the body B sees I and the outer scope
// @bound one template, 3 symbolic names over 4 identifiers, symbolic outer scope
// @funcs Analyzer::analyze_comp_spec, Analyzer::analyze_expr (ArrayComp arm)
eval_stubs! {
#[kani::proof]
#[kani::unwind(7)]
fn c09_comprehension_single() {
    let arena = Arena::new();
    let mut program = bare_program(&arena);
    let nm = names(&arena, &mut program);
    let i = any_idx(3);
    let (a, b) = (any_idx(4), any_idx(4));
    let outer_has_c: bool = kani::any();
    let spec = [ast::CompSpecPart::For(ast::ForSpec { var: nm.ident(i), inner: nm.var(a) })];
    let body = nm.var(b);
    let root = ast::Expr { kind: ast::ExprKind::ArrayComp(&body, &spec), span: nm.span };
    let res = analyze_with_outer(&program, &nm, outer_has_c, &root);
    let outer = |k: usize| k == 2 && outer_has_c;
    if outer(a) && (b == i || outer(b)) {
        assert!(matches!(&res, Ok(ir::Expr::ArrayComp { .. })), "accepted");
        kani::cover!(b == i && i != 2, "body uses the generator variable");
    } else {
        assert!(matches!(&res, Err(AnalyzeError::UnknownVariable { .. })), "a generator's source cannot see its own variable");
        kani::cover!(a == i && !outer(a), "source refers to the variable it defines");
    }
    core::mem::forget(res);
    core::mem::forget(program);
}
}

// @harness id=c09_objcomp_field_name props=C09 tier=attempt cap=1500 fs=64
// @desc Analyzer on the object comprehension `{ local V = null, [E]: W for K in A }` with symbolic names: the computed field name E is resolved in the comprehension scope (outer variables and K) and does NOT see the object local V, while the field body W sees V, K and the outer scope
// @bound one template, 5 symbolic names over 4 identifiers, symbolic outer scope
// @funcs Analyzer::analyze_objinside (ObjInside::Comp), Analyzer::analyze_comp_spec
eval_stubs! {
#[kani::proof]
#[kani::unwind(7)]
fn c09_objcomp_field_name() {
    let arena = Arena::new();
    let mut program = bare_program(&arena);
    let nm = names(&arena, &mut program);
    let (v, k) = (any_idx(3), any_idx(3));
    let (e, w, a) = (any_idx(4), any_idx(4), any_idx(4));
    let outer_has_c: bool = kani::any();
    let locals2 = [ast::ObjLocal { bind: ast::Bind { name: nm.ident(v), params: None, value: nm.null() } }];
    let name = nm.var(e);
    let body = nm.var(w);
    let spec = [ast::CompSpecPart::For(ast::ForSpec { var: nm.ident(k), inner: nm.var(a) })];
    let inside = ast::ObjInside::Comp { locals1: &[], name: &name, plus: false, body: &body, locals2: &locals2, comp_spec: &spec };
    let root = ast::Expr { kind: ast::ExprKind::Object(inside), span: nm.span };
    let res = analyze_with_outer(&program, &nm, outer_has_c, &root);
    let outer = |x: usize| x == 2 && outer_has_c;
    let comp_scope = |x: usize| x == k || outer(x);
    if outer(a) && comp_scope(e) && (w == v || comp_scope(w)) {
        assert!(matches!(&res, Ok(ir::Expr::ObjectComp { .. })), "accepted");
        kani::cover!(e == k && w == v && v != k, "name from the generator, body from the object local");
    } else {
        assert!(matches!(&res, Err(AnalyzeError::UnknownVariable { .. })), "unbound variable (a computed field name does not see the object's locals)");
        kani::cover!(outer(a) && e == v && !comp_scope(e), "field name refers to the object local: rejected");
    }
    core::mem::forget(res);
    core::mem::forget(program);
}
}

// @harness id=c09_import_path props=C09 tier=attempt cap=1500 fs=64
// @desc Analyzer on `if false then import E else null` / `importstr E` with E a string literal, a text block or another expression: accepted / TextBlockAsImportPath / ComputedImportPath - the computed path is rejected although the branch can never be evaluated
// @bound 3 path kinds x 2 import kinds, inside a dead branch
// @funcs Analyzer::analyze_expr (Import, ImportStr, If arms)
eval_stubs! {
#[kani::proof]
#[kani::unwind(7)]
fn c09_import_path() {
    let arena = Arena::new();
    let mut program = bare_program(&arena);
    let nm = names(&arena, &mut program);
    let kind: u8 = kani::any();
    kani::assume(kind < 3);
    let path = match kind {
        0 => ast::Expr { kind: ast::ExprKind::String("x"), span: nm.span },
        1 => ast::Expr { kind: ast::ExprKind::TextBlock("x"), span: nm.span },
        _ => nm.null(),
    };
    let is_str: bool = kani::any();
    let import = ast::Expr { kind: if is_str { ast::ExprKind::ImportStr(&path) } else { ast::ExprKind::Import(&path) }, span: nm.span };
    let cond = ast::Expr { kind: ast::ExprKind::Bool(false), span: nm.span };
    let else_body = nm.null();
    let root = ast::Expr { kind: ast::ExprKind::If(&cond, &import, Some(&else_body)), span: nm.span };
    let res = analyze_with_outer(&program, &nm, false, &root);
    match kind {
        0 => assert!(matches!(&res, Ok(ir::Expr::If { .. })), "literal import path accepted"),
        1 => assert!(matches!(&res, Err(AnalyzeError::TextBlockAsImportPath { .. })), "text block as import path rejected"),
        _ => {
            assert!(matches!(&res, Err(AnalyzeError::ComputedImportPath { .. })), "computed import path rejected even in dead code");
            kani::cover!(is_str, "computed importstr path");
        }
    }
    core::mem::forget(res);
    core::mem::forget(program);
}
}

// @harness id=c09_positional_after_named props=C09 tier=attempt cap=1500 fs=64
// @desc Analyzer on `null(A1, A2)` where the SECOND argument is symbolically positional or named and the first is named: PositionalArgAfterNamed iff the second is positional; the argument names are symbolic
// @bound 2 arguments (first named), symbolic names
// @funcs Analyzer::analyze_expr (Call arm)
eval_stubs! {
#[kani::proof]
#[kani::unwind(7)]
fn c09_positional_after_named() {
    let arena = Arena::new();
    let mut program = bare_program(&arena);
    let nm = names(&arena, &mut program);
    let second_named: bool = kani::any();
    let (k1, k2) = (any_idx(3), any_idx(3));
    let second = if second_named { ast::Arg::Named(nm.ident(k2), nm.null()) } else { ast::Arg::Positional(nm.null()) };
    let args = [ast::Arg::Named(nm.ident(k1), nm.null()), second];
    let callee = nm.null();
    let root = ast::Expr { kind: ast::ExprKind::Call(&callee, &args, false), span: nm.span };
    let res = analyze_with_outer(&program, &nm, false, &root);
    if second_named {
        assert!(matches!(&res, Ok(ir::Expr::Call { .. })), "two named arguments are accepted by the analyzer");
        kani::cover!(k1 == k2, "the same name twice is a run-time, not a static, error");
    } else {
        assert!(matches!(&res, Err(AnalyzeError::PositionalArgAfterNamed { .. })), "positional after named is rejected");
    }
    core::mem::forget(res);
    core::mem::forget(program);
}
}

// @harness id=c09_self_outside_object props=C09 tier=attempt cap=5400 fs=64 mem=40
// @desc Analyzer on `local a = (self | $ | super.a | "a" in super); null` outside any object, and on `{ [self|$]: null }` (computed field name of a top-level object): rejected with Self/Dollar/SuperOutsideObject even though the binding is never used; the same references inside a field body `{ a: (self | $ | super.a) }` are accepted
// @bound 4 reference kinds x 3 positions
// @funcs Analyzer::analyze_expr (SelfObj, Dollar, SuperField, InSuper arms), Analyzer::analyze_objinside
eval_stubs! {
#[kani::proof]
#[kani::unwind(7)]
fn c09_self_outside_object() {
    let arena = Arena::new();
    let mut program = bare_program(&arena);
    let nm = names(&arena, &mut program);
    let kind: u8 = kani::any();
    kani::assume(kind < 4);
    let lit = ast::Expr { kind: ast::ExprKind::String("a"), span: nm.span };
    let refexpr = match kind {
        0 => ast::Expr { kind: ast::ExprKind::SelfObj, span: nm.span },
        1 => ast::Expr { kind: ast::ExprKind::Dollar, span: nm.span },
        2 => ast::Expr { kind: ast::ExprKind::SuperField(nm.span, nm.ident(0)), span: nm.span },
        _ => ast::Expr { kind: ast::ExprKind::InSuper(&lit, nm.span), span: nm.span },
    };
    let pos: u8 = kani::any();
    kani::assume(pos < 3);
    let null = nm.null();
    let res = match pos {
        0 => {
            // unused local outside any object
            let binds = [ast::Bind { name: nm.ident(0), params: None, value: refexpr }];
            let root = ast::Expr { kind: ast::ExprKind::Local(&binds, &null), span: nm.span };
            analyze_with_outer(&program, &nm, false, &root)
        }
        1 => {
            // computed field name of a top-level object
            let members = [ast::Member::Field(ast::Field::Value(ast::FieldName::Expr(refexpr, nm.span), false, ast::Visibility::Default, null))];
            let root = ast::Expr { kind: ast::ExprKind::Object(ast::ObjInside::Members(&members)), span: nm.span };
            analyze_with_outer(&program, &nm, false, &root)
        }
        _ => {
            // field body
            let members = [ast::Member::Field(ast::Field::Value(ast::FieldName::Ident(nm.ident(0)), false, ast::Visibility::Default, refexpr))];
            let root = ast::Expr { kind: ast::ExprKind::Object(ast::ObjInside::Members(&members)), span: nm.span };
            analyze_with_outer(&program, &nm, false, &root)
        }
    };
    if pos == 2 {
        assert!(matches!(&res, Ok(ir::Expr::Object { .. })), "self, $ and super are fine inside a field body");
        kani::cover!(kind == 3, "`in super` inside an object");
    } else {
        match kind {
            0 => assert!(matches!(&res, Err(AnalyzeError::SelfOutsideObject { .. })), "self outside an object"),
            1 => assert!(matches!(&res, Err(AnalyzeError::DollarOutsideObject { .. })), "$ outside an object"),
            _ => assert!(matches!(&res, Err(AnalyzeError::SuperOutsideObject { .. })), "super outside an object"),
        }
        kani::cover!(pos == 1 && kind == 0, "self in the computed field name of a top-level object");
    }
    core::mem::forget(res);
    core::mem::forget(program);
}
}

// @harness id=c09_must_fail props=C09 tier=quick cap=1500 fs=64 expect=fail
// @desc vacuity twin of the scoping harnesses
eval_stubs! {
#[kani::proof]
#[kani::unwind(7)]
fn c09_must_fail() {
    let arena = Arena::new();
    let mut program = bare_program(&arena);
    let nm = names(&arena, &mut program);
    let b = any_idx(4);
    let root = nm.var(b);
    let res = analyze_with_outer(&program, &nm, true, &root);
    core::mem::forget(res);
    core::mem::forget(program);
    assert!(false, "reachability witness");
}
}
