//! C18: strings are sequences of Unicode code points (never bytes) in the
//! in-crate string builtins. Symbolic strings are built from `char`s (`kani::any::<char>()`
//! covers all scalar values, so 1-, 2-, 3- and 4-byte characters sit at every
//! position); the oracle works on the characters, the code under test on the
//! UTF-8 `str`.
use super::*;

fn two_char_string(c1: char, c2: char) -> Rc<str> {
    let mut s = String::with_capacity(8);
    s.push(c1);
    s.push(c2);
    s.into()
}

fn top_string_is(ev: &Evaluator<'_, '_>, chars: &[char]) -> bool {
    match ev.value_stack.last() {
        Some(ValueData::String(s)) => {
            let mut it = s.chars();
            let mut ok = true;
            let mut k = 0;
            while k < chars.len() {
                if it.next() != Some(chars[k]) {
                    ok = false;
                }
                k += 1;
            }
            ok && it.next().is_none()
        }
        _ => false,
    }
}

// @harness id=c18_slice_string_negative props=C18,C02 tier=attempt cap=1500
// @desc do_slice_string (s[a:b], std.slice on strings) on a string of two arbitrary characters (any UTF-8 widths) with the slices [-1:], [:-1] and [1:]: negative bounds count CHARACTERS from the end, so the results are the last character, the first character and the last character
// @bound strings of 2 arbitrary Unicode scalar values (2..8 bytes), three slice shapes
// @funcs Evaluator::do_slice_string, Evaluator::get_slice_range
eval_stubs! {
#[kani::proof]
#[kani::unwind(12)]
#[kani::stub(alloc::string::String::reserve, crate::kani_support::stub_string_reserve)]
fn c18_slice_string_negative() {
    let arena = Arena::new();
    let mut program = bare_program(&arena);
    let mut ev = bare_evaluator(&mut program);
    let c1: char = kani::any();
    let c2: char = kani::any();
    let s = two_char_string(c1, c2);
    let shape: u8 = kani::any();
    kani::assume(shape < 3);
    let (start, end) = match shape {
        0 => (Some(-1.0), None),
        1 => (None, Some(-1.0)),
        _ => (Some(1.0), None),
    };
    let res = ev.do_slice_string(&s, start, end, None, None);
    assert!(res.is_ok(), "integer bounds are accepted");
    let want = if shape == 1 { [c1] } else { [c2] };
    assert!(top_string_is(&ev, &want), "bounds count characters, not bytes");
    kani::cover!(shape == 0 && c1.len_utf8() == 4 && c2.len_utf8() == 1, "astral character before the selected one");
    kani::cover!(shape == 1 && c2.len_utf8() == 3, "dropping a three-byte last character");
    core::mem::forget(res);
    core::mem::forget(ev);
    core::mem::forget(program);
    core::mem::forget(s);
}
}

// @harness id=c18_slice_fixed_string props=C18,C02 tier=attempt cap=1500
// @desc do_slice_string (s[a:], std.slice) on the FIXED string of a 2-byte and a 3-byte character followed by an ASCII letter, with ANY integral start bound in -4..=4 and no end: the result is the suffix of CHARACTERS from the position the bound denotes (a negative bound counts characters from the end, clamped at 0; a positive one is clamped at the length 3) - the byte length (6) never enters
// @bound the string U+00E9 U+20AC 'z' (3 characters, 6 bytes); start in -4..=4; no end, no step
// @funcs Evaluator::do_slice_string, Evaluator::get_slice_range
eval_stubs! {
#[kani::proof]
#[kani::unwind(12)]
#[kani::stub(alloc::string::String::reserve, crate::kani_support::stub_string_reserve)]
fn c18_slice_fixed_string() {
    let arena = Arena::new();
    let mut program = bare_program(&arena);
    let mut ev = bare_evaluator(&mut program);
    let s = "\u{e9}\u{20ac}z";
    let k: i8 = kani::any();
    kani::assume(k >= -4 && k <= 4);
    let res = ev.do_slice_string(s, Some(k as f64), None, None, None);
    assert!(res.is_ok(), "integral bounds are accepted");
    // first character kept: negative bounds count from the end of the 3 CHARACTERS
    let first: usize = if k < 0 { if -k >= 3 { 0 } else { (3 + k) as usize } } else if k > 3 { 3 } else { k as usize };
    let want: &str = match first {
        0 => "\u{e9}\u{20ac}z",
        1 => "\u{20ac}z",
        2 => "z",
        _ => "",
    };
    assert!(matches!(ev.value_stack.last(), Some(ValueData::String(r)) if r.as_bytes() == want.as_bytes()), "the suffix starts at a character position counted in characters");
    kani::cover!(k == -1, "last character");
    kani::cover!(k == -2, "last two characters");
    kani::cover!(k == 4, "beyond the end");
    core::mem::forget(res);
    core::mem::forget(ev);
    core::mem::forget(program);
}
}

// @harness id=c18_codepoint_char_inverse props=C18,C01:thorough tier=attempt cap=1500
// @desc std.char and std.codepoint at their Rust entry points: std.char(n) succeeds exactly when trunc(n) is a Unicode scalar value and then std.codepoint(std.char(n)) == trunc(n); surrogates, negative numbers and numbers above 0x10FFFF are errors; std.codepoint of a two-character string is an error
// @bound all finite doubles for std.char; all scalar values; strings of 1 and 2 characters
// @funcs Evaluator::do_std_char, Evaluator::do_std_codepoint, ValueData::from_char, float::try_to_u32
eval_stubs! {
#[kani::proof]
#[kani::unwind(8)]
fn c18_codepoint_char_inverse() {
    let arena = Arena::new();
    let mut program = bare_program(&arena);
    let mut ev = bare_evaluator(&mut program);
    let n = any_finite();
    ev.value_stack.push(ValueData::Number(n));
    let res = ev.do_std_char();
    let t = n.trunc();
    let valid = t >= 0.0 && t <= 1114111.0 && !(t >= 55296.0 && t <= 57343.0);
    if res.is_ok() {
        assert!(valid, "only Unicode scalar values are accepted");
        assert!(matches!(ev.value_stack.last(), Some(ValueData::String(s)) if s.chars().count() == 1), "a one-character string");
        let res2 = ev.do_std_codepoint();
        assert!(res2.is_ok(), "codepoint of a one-character string");
        assert!(matches!(ev.value_stack.last(), Some(ValueData::Number(x)) if *x == t), "codepoint(char(n)) == trunc(n)");
        kani::cover!(t > 65535.0, "astral character");
        core::mem::forget(res2);
    } else {
        assert!(!valid, "every scalar value is accepted");
        kani::cover!(t >= 55296.0 && t <= 57343.0, "surrogate rejected");
    }
    core::mem::forget(res);
    core::mem::forget(ev);
    core::mem::forget(program);
}
}

// @harness id=c18_length_counts_chars props=C18 tier=attempt cap=1500
// @desc std.length on a string of two arbitrary characters is 2 whatever their UTF-8 widths (2..8 bytes), and std.codepoint of such a string is an error (not single-character)
// @bound strings of 2 arbitrary Unicode scalar values
// @funcs Evaluator::do_std_length, Evaluator::do_std_codepoint
eval_stubs! {
#[kani::proof]
#[kani::unwind(12)]
fn c18_length_counts_chars() {
    let arena = Arena::new();
    let mut program = bare_program(&arena);
    let mut ev = bare_evaluator(&mut program);
    let c1: char = kani::any();
    let c2: char = kani::any();
    let s = two_char_string(c1, c2);
    let keep = s.clone();
    ev.value_stack.push(ValueData::String(s));
    let res = ev.do_std_length();
    assert!(res.is_ok(), "length of a string");
    assert!(matches!(ev.value_stack.last(), Some(ValueData::Number(x)) if *x == 2.0), "length counts characters");
    ev.value_stack.push(ValueData::String(keep.clone()));
    let res2 = ev.do_std_codepoint();
    assert!(res2.is_err(), "codepoint needs exactly one character");
    kani::cover!(c1.len_utf8() == 4 && c2.len_utf8() == 4, "two astral characters (8 bytes, 4 UTF-16 units)");
    core::mem::forget((res, res2));
    core::mem::forget(ev);
    core::mem::forget(program);
    core::mem::forget(keep);
}
}

// @harness id=c18_join_str_item props=C18 tier=attempt cap=1500
// @desc one step of std.join with a string separator (do_std_join_str_item) from any reachable pre-state - accumulator "" or "a", the first-item flag set or not (set implies an empty accumulator, but an empty accumulator does not imply the flag: a leading "" item clears it), item null / "" / "b": null items are skipped; otherwise the separator is inserted exactly when an item has been appended before (flag clear), also after leading empty strings, so that std.join(c, std.split(s, c)) == s for s starting with c
// @bound accumulator in {"", "a"}, item in {null, "", "b"}, separator ","
// @funcs Evaluator::do_std_join_str_item
eval_stubs! {
#[kani::proof]
#[kani::unwind(8)]
#[kani::stub(alloc::string::String::reserve, crate::kani_support::stub_string_reserve)]
#[kani::stub(alloc::string::String::push_str, crate::kani_support::stub_string_push_str)]
fn c18_join_str_item() {
    let arena = Arena::new();
    let mut program = bare_program(&arena);
    let mut ev = bare_evaluator(&mut program);
    let acc_has_a: bool = kani::any();
    let first: bool = kani::any();
    kani::assume(!(first && acc_has_a)); // nothing can have been appended while the flag is still set
    let mut acc = String::with_capacity(8);
    if acc_has_a {
        acc.push('a');
    }
    ev.string_stack.push(acc);
    ev.bool_stack.push(first);
    let item_kind: u8 = kani::any();
    kani::assume(item_kind < 3);
    let item = match item_kind {
        0 => ValueData::Null,
        1 => ValueData::String("".into()),
        _ => ValueData::String("b".into()),
    };
    ev.value_stack.push(item);
    let sep: Rc<str> = ",".into();
    let res = ev.do_std_join_str_item(sep.clone());
    assert!(res.is_ok(), "null and string items are accepted");
    // expected accumulator
    let mut want = [0u8; 4];
    let mut n = 0;
    if acc_has_a {
        want[n] = b'a';
        n += 1;
    }
    if item_kind != 0 {
        if !first {
            want[n] = b',';
            n += 1;
        }
        if item_kind == 2 {
            want[n] = b'b';
            n += 1;
        }
    }
    let got = ev.string_stack[0].as_bytes();
    assert!(got.len() == n, "separator inserted exactly when an item was appended before");
    let mut k = 0;
    while k < 4 {
        if k < n {
            assert!(got[k] == want[k], "accumulator = previous text, separator if not first, item");
        }
        k += 1;
    }
    assert!(ev.bool_stack.len() == 1 && ev.bool_stack[0] == (first && item_kind == 0), "the first-item flag is cleared by the first non-null item");
    kani::cover!(!first && !acc_has_a && item_kind == 2, "item after leading empty strings gets its separator");
    kani::cover!(first && item_kind == 1, "leading empty string clears the flag");
    core::mem::forget(res);
    core::mem::forget(ev);
    core::mem::forget(program);
    core::mem::forget(sep);
}
}

impl<'p> Evaluator<'_, 'p> {
    /// Recording stub for `Evaluator::get_slice_range` (whose arithmetic is decided for every length and every
    /// bound by `c02_slice_range`): pushes the length it is handed on the value stack and answers with the empty
    /// range, so that no result string is built.
    pub(in crate::program) fn kstub_get_slice_range_record(
        &mut self,
        indexable_len: usize,
        _start: Option<f64>,
        _end: Option<f64>,
        _step: Option<f64>,
        _span: Option<SpanId>,
    ) -> EvalResult<(usize, usize, usize)> {
        self.value_stack.push(ValueData::Number(indexable_len as f64));
        Ok((0, 0, 1))
    }
}

/// Two arbitrary characters of the UTF-8 widths W1 and W2 (concrete length, symbolic content).
fn slice_len_arg_case<const W1: usize, const W2: usize>() {
    let arena = Arena::new();
    let mut program = bare_program(&arena);
    let mut ev = bare_evaluator(&mut program);
    let c1: char = kani::any();
    let c2: char = kani::any();
    kani::assume(c1.len_utf8() == W1 && c2.len_utf8() == W2);
    let mut buf = [0u8; 8];
    c1.encode_utf8(&mut buf[..W1]);
    c2.encode_utf8(&mut buf[W1..W1 + W2]);
    let s: &str = core::str::from_utf8(&buf[..W1 + W2]).unwrap();
    let res = ev.do_slice_string(s, Some(-1.0), None, None, None);
    assert!(res.is_ok(), "the stubbed range is accepted");
    assert!(ev.value_stack.len() == 2, "one recorded length, one result");
    assert!(matches!(ev.value_stack[0], ValueData::Number(n) if n == 2.0), "the length of a string is its number of code points");
    assert!(matches!(&ev.value_stack[1], ValueData::String(r) if r.len() == 0), "the empty range gives the empty string");
    core::mem::forget(res);
    core::mem::forget(ev);
    core::mem::forget(program);
}

// @harness id=c18_slice_string_len_arg props=C18,C02:thorough tier=quick cap=900
// @desc do_slice_string (s[a:b:c], std.slice on strings) on strings of two arbitrary characters of the UTF-8 widths (2,3), (4,1) and (1,1): the length handed to the range computation is the number of CODE POINTS (2), never the byte length (5, 5, 2). Composes with c02_slice_range, which decides the range arithmetic of the real get_slice_range for every length and every bound
// @bound strings of 2 arbitrary Unicode scalar values of widths (2,3), (4,1), (1,1); get_slice_range replaced by a recording stub that returns the empty range; core::str::count::count_chars replaced by the plain non-continuation-byte loop (the selection of characters by skip/take/step_by on str::chars is not covered)
// @funcs Evaluator::do_slice_string
eval_stubs! {
#[kani::proof]
#[kani::unwind(12)]
#[kani::stub(crate::program::eval::Evaluator::get_slice_range, crate::program::eval::Evaluator::kstub_get_slice_range_record)]
#[kani::stub(core::str::count::count_chars, crate::kani_support::stub_count_chars)]
fn c18_slice_string_len_arg() {
    slice_len_arg_case::<2, 3>();
    slice_len_arg_case::<4, 1>();
    slice_len_arg_case::<1, 1>();
    kani::cover!(true, "all cases completed");
}
}

// @harness id=c18_must_fail props=C18 tier=quick cap=1500 expect=fail
// @desc vacuity twin of the string harnesses
eval_stubs! {
#[kani::proof]
#[kani::unwind(8)]
fn c18_must_fail() {
    let arena = Arena::new();
    let mut program = bare_program(&arena);
    let mut ev = bare_evaluator(&mut program);
    ev.value_stack.push(ValueData::Number(65.0));
    let res = ev.do_std_char();
    core::mem::forget(res);
    core::mem::forget(ev);
    core::mem::forget(program);
    assert!(false, "reachability witness");
}
}
