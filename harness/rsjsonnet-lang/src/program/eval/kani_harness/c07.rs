//! C07: the object layer model. Real `ObjectData` values are built with symbolic
//! per-layer entries for two names and the real `find_field`, `has_field`,
//! `has_visible_field`, `get_fields_order`, `get_visible_fields_order`,
//! `extend_object` and `object_with_field_removed` are compared with the
//! specification's layer semantics written over small arrays.
//!
//! Layer numbering: 0 = self layer = right-most operand of `+`; larger = further
//! to the left (`super`). A `Removed(d)` marker at layer i (left behind by
//! std.objectRemoveKey) hides layers i+1 ..= i+d for that name from every lookup
//! that starts at a layer <= i.
use super::*;

#[derive(Clone, Copy)]
pub(super) struct Ent {
    /// 0 absent, 1 `f: ` (default), 2 `f:: ` (hidden), 3 `f::: ` (forced visible), 4 Removed(depth)
    kind: u8,
    depth: usize,
}

fn any_ent() -> Ent {
    let kind: u8 = kani::any();
    kani::assume(kind <= 4);
    let depth: usize = kani::any();
    Ent { kind, depth }
}

fn vis_of(kind: u8) -> ast::Visibility {
    match kind {
        1 => ast::Visibility::Default,
        2 => ast::Visibility::Hidden,
        _ => ast::Visibility::ForceVisible,
    }
}

fn mk_slot<'p>(name: InternedStr<'p>, e: Ent) -> Option<(InternedStr<'p>, ObjectField<'p>)> {
    match e.kind {
        0 => None,
        4 => Some((name, ObjectField::Removed(e.depth))),
        k => Some((
            name,
            ObjectField::Normal(ObjectFieldData {
                base_env: None,
                visibility: vis_of(k),
                expr: None,
                thunk: OnceCell::new(),
            }),
        )),
    }
}

fn mk_layer<'p>(f: InternedStr<'p>, g: InternedStr<'p>, ef: Ent, eg: Ent) -> ObjectLayer<'p> {
    ObjectLayer {
        is_top: false,
        locals: &[],
        base_env: None,
        env: OnceCell::new(),
        fields: FHashMap::kani_from_slots([mk_slot(f, ef), mk_slot(g, eg), None, None]),
        asserts: &[],
    }
}

/// Reachable-state invariant of `Removed` markers for one name over `n` layers:
/// depth >= 1, the hidden range stays inside the object, and ranges nest.
fn markers_well_formed<const N: usize>(ents: &[Ent; N], n: usize) -> bool {
    let mut ok = true;
    let mut i = 0;
    while i < N {
        if i < n && ents[i].kind == 4 {
            let d = ents[i].depth;
            if d < 1 || d > N || i + d > n - 1 {
                ok = false;
            } else {
                let mut j = i + 1;
                while j < N {
                    if j <= i + d && ents[j].kind == 4 && (ents[j].depth > N || j + ents[j].depth > i + d) {
                        ok = false;
                    }
                    j += 1;
                }
            }
        }
        i += 1;
    }
    ok
}

/// Specification: first layer >= k that holds the name and is not hidden by a marker met on the way.
fn ref_find<const N: usize>(ents: &[Ent; N], n: usize, k: usize) -> Option<usize> {
    let mut hidden_below = 0usize;
    let mut j = 0;
    while j < N {
        if j >= k && j < n && j >= hidden_below {
            match ents[j].kind {
                0 => {}
                4 => hidden_below = j + ents[j].depth + 1,
                _ => return Some(j),
            }
        }
        j += 1;
    }
    None
}

/// Specification: (exists, visibility) of the name in the whole object: the outermost non-default
/// visibility among the layers that are not hidden wins; all-default means default (visible).
fn ref_visibility<const N: usize>(ents: &[Ent; N], n: usize) -> (bool, ast::Visibility) {
    let mut hidden_below = 0usize;
    let mut exists = false;
    let mut vis = ast::Visibility::Default;
    let mut decided = false;
    let mut j = 0;
    while j < N {
        if j < n && j >= hidden_below {
            match ents[j].kind {
                0 => {}
                4 => hidden_below = j + ents[j].depth + 1,
                k => {
                    exists = true;
                    if !decided && k != 1 {
                        vis = vis_of(k);
                        decided = true;
                    }
                }
            }
        }
        j += 1;
    }
    (exists, vis)
}

fn check_lookup<'p, const N: usize>(
    obj: &ObjectData<'p>,
    f: InternedStr<'p>,
    ef: &[Ent; N],
    n: usize,
) {
    // find_field / has_field from every start layer
    let k: usize = kani::any();
    kani::assume(k <= n);
    let got = obj.find_field(k, f).map(|(i, _)| i);
    let want = ref_find(ef, n, k);
    assert!(got == want, "find_field(k, f) is the first visible layer >= k holding f");
    assert!(obj.has_field(k, f) == want.is_some(), "has_field agrees with find_field");
    kani::cover!(want.is_some() && want.unwrap() > k + 1, "lookup skipped layers");
    kani::cover!(want.is_none() && k == 0 && ef[0].kind == 4, "field removed from the whole object");

    let (f_exists, f_vis) = ref_visibility(ef, n);
    let f_visible = f_exists && f_vis != ast::Visibility::Hidden;
    assert!(obj.has_visible_field(f) == f_visible, "has_visible_field follows the visibility rule");
    assert!(obj.has_field(0, f) == f_exists, "has_field(0) = existence");
    kani::cover!(f_exists && !f_visible, "hidden field");
    kani::cover!(f_visible && ef[0].kind == 1 && f_vis == ast::Visibility::ForceVisible, "default override inherits forced visibility");
}

fn check_order<'p, const N: usize>(
    obj: &ObjectData<'p>,
    f: InternedStr<'p>,
    g: InternedStr<'p>,
    ef: &[Ent; N],
    eg: &[Ent; N],
    n: usize,
) {
    let (f_exists, f_vis) = ref_visibility(ef, n);
    let (g_exists, g_vis) = ref_visibility(eg, n);
    let f_visible = f_exists && f_vis != ast::Visibility::Hidden;
    let g_visible = g_exists && g_vis != ast::Visibility::Hidden;
    // fields order: existence, visibility, sortedness, no duplicates
    let order = obj.get_fields_order();
    let mut f_seen: Option<ast::Visibility> = None;
    let mut g_seen: Option<ast::Visibility> = None;
    let mut f_pos = 0usize;
    let mut g_pos = 0usize;
    let mut idx = 0usize;
    assert!(order.len() <= 2, "at most the two names");
    while idx < order.len() {
        let (name, vis) = order[idx];
        if name == f {
            assert!(f_seen.is_none(), "f listed once");
            f_seen = Some(vis);
            f_pos = idx;
        } else {
            assert!(name == g, "only f and g can be listed");
            assert!(g_seen.is_none(), "g listed once");
            g_seen = Some(vis);
            g_pos = idx;
        }
        idx += 1;
    }
    assert!(f_seen.is_some() == f_exists, "get_fields_order lists f iff f exists");
    assert!(g_seen.is_some() == g_exists, "get_fields_order lists g iff g exists");
    if let Some(v) = f_seen {
        assert!(v == f_vis, "get_fields_order reports the resolved visibility of f");
        assert!((v != ast::Visibility::Hidden) == obj.has_visible_field(f), "get_fields_order agrees with has_visible_field on f");
    }
    if let Some(v) = g_seen {
        assert!(v == g_vis, "get_fields_order reports the resolved visibility of g");
    }
    if f_seen.is_some() && g_seen.is_some() {
        assert!(f_pos < g_pos, "fields are sorted by name");
    }
    let n_visible = obj.get_visible_fields_order().count();
    assert!(n_visible == (f_visible as usize) + (g_visible as usize), "visible fields = std.length");
}

fn mk_object<'p, const N: usize>(f: InternedStr<'p>, g: InternedStr<'p>, ef: &[Ent; N], eg: &[Ent; N]) -> ObjectData<'p> {
    let self_layer = mk_layer(f, g, ef[0], eg[0]);
    let mut super_layers = Vec::with_capacity(N - 1);
    let mut i = 1;
    while i < N {
        super_layers.push(mk_layer(f, g, ef[i], eg[i]));
        i += 1;
    }
    ObjectData {
        self_layer,
        super_layers,
        fields_order: OnceCell::new(),
        asserts_checked: Cell::new(true),
    }
}

macro_rules! c07_lookup_harness {
    ($name:ident, $n:expr) => {
        eval_stubs! {
        #[kani::proof]
        #[kani::unwind(8)]
        fn $name() {
            const N: usize = $n;
            let arena = Arena::new();
            let interner = StrInterner::new();
            let f = interner.intern(&arena, "f");
            let g = interner.intern(&arena, "g");
            let ef: [Ent; N] = core::array::from_fn(|_| any_ent());
            let eg: [Ent; N] = core::array::from_fn(|_| any_ent());
            kani::assume(markers_well_formed(&ef, N));
            kani::assume(markers_well_formed(&eg, N));
            let obj = mk_object(f, g, &ef, &eg);
            check_lookup(&obj, f, &ef, N);
            core::mem::forget(obj);
        }
        }
    };
}

const ABSENT: Ent = Ent { kind: 0, depth: 0 };

/// Present with an arbitrary visibility (the *presence* is concrete, so that the length of the
/// computed field list is a constant: `collect::<Box<[_]>>()` of a symbolic number of elements
/// shrinks a heap block to a symbolic size, which CBMC's array post-processing does not survive
/// - 16 M variables, out of memory).
fn any_present() -> Ent {
    let kind: u8 = kani::any();
    kani::assume(kind >= 1 && kind <= 3);
    Ent { kind, depth: 0 }
}

fn removed(depth: usize) -> Ent {
    Ent { kind: 4, depth }
}

fn run_order_template<const N: usize>(ef: [Ent; N]) {
    let arena = Arena::new();
    let interner = StrInterner::new();
    let f = interner.intern(&arena, "f");
    let g = interner.intern(&arena, "g");
    let eg: [Ent; N] = [ABSENT; N];
    kani::assume(markers_well_formed(&ef, N));
    let obj = mk_object(f, g, &ef, &eg);
    check_order(&obj, f, g, &ef, &eg, N);
    core::mem::forget(obj);
}

// @harness id=c07_order_plain_3 props=C07,C05 tier=attempt cap=5400 mem=40
// @desc get_fields_order / has_visible_field on every 3-layer object in which one name is present in all layers with arbitrary visibilities: the name is listed once with the resolved visibility (outermost non-default wins, all-default is default) and all views agree
// @bound template [f v0, f v1, f v2] with the three visibilities symbolic (27 combinations in one query)
// @funcs ObjectData::get_fields_order, ObjectData::get_visible_fields_order, ObjectData::has_visible_field
eval_stubs! {
#[kani::proof]
#[kani::unwind(6)]
fn c07_order_plain_3() {
    let ef = [any_present(), any_present(), any_present()];
    run_order_template::<3>(ef);
    kani::cover!(ef[0].kind == 1 && ef[1].kind == 1 && ef[2].kind == 2, "two default overrides of a hidden field");
}
}

// @harness id=c07_order_removed_4 props=C07,C05 tier=attempt cap=5400 mem=40
// @desc get_fields_order / has_visible_field on every 4-layer object of the shape [f v0, Removed(d), f v1, f v2] with d in {1,2} and arbitrary visibilities (the shape of `objectRemoveKey(X, "f") + { f: ... }` and of `objectRemoveKey(X + Y, "f") + {...}`): layers hidden by the Removed marker do not influence the visibility of f, layers beyond it do, and manifestation (get_fields_order) agrees with std.objectHas (has_visible_field)
// @bound template of 4 layers, 3 symbolic visibilities, symbolic marker depth in {1,2}
// @funcs ObjectData::get_fields_order, ObjectData::get_visible_fields_order, ObjectData::has_visible_field
eval_stubs! {
#[kani::proof]
#[kani::unwind(7)]
fn c07_order_removed_4() {
    let d: usize = kani::any();
    kani::assume(d == 1 || d == 2);
    let ef = [any_present(), removed(d), any_present(), any_present()];
    run_order_template::<4>(ef);
    kani::cover!(d == 2 && ef[0].kind == 1 && ef[2].kind == 2, "default override above a removed hidden field");
    kani::cover!(d == 1 && ef[0].kind == 1 && ef[3].kind == 3, "visibility inherited from beyond the removed range");
}
}

// @harness id=c07_order_removed_top props=C07,C05 tier=attempt cap=5400 mem=40
// @desc get_fields_order on [Removed(2), f v1, f v2] (std.objectRemoveKey of a 2-layer object) and on [Removed(1), f v1, f v2]: the field is listed only if a layer beyond the removed range holds it
// @bound two concrete marker depths, symbolic visibilities
// @funcs ObjectData::get_fields_order
eval_stubs! {
#[kani::proof]
#[kani::unwind(6)]
fn c07_order_removed_top() {
    let ef2 = [removed(2), any_present(), any_present()];
    run_order_template::<3>(ef2);
}
}

fn any_plain_ent() -> Ent {
    // absent, or present with an arbitrary visibility (no Removed markers)
    let kind: u8 = kani::any();
    kani::assume(kind <= 3);
    Ent { kind, depth: 0 }
}

// @harness id=c07_order_two_names props=C07,C05 tier=attempt cap=5400 mem=40
// @desc get_fields_order on every 2-layer object where g is defined in both layers and f only in the super layer (layers store g before f), with arbitrary visibilities: both names are listed once each, in sorted order (f before g), with the resolved visibility
// @bound 2 layers, 2 names, symbolic visibilities
// @funcs ObjectData::get_fields_order, ObjectData::get_visible_fields_order
eval_stubs! {
#[kani::proof]
#[kani::unwind(6)]
fn c07_order_two_names() {
    const N: usize = 2;
    let arena = Arena::new();
    let interner = StrInterner::new();
    let f = interner.intern(&arena, "f");
    let g = interner.intern(&arena, "g");
    // concrete presence (see any_present): f only in the super layer, g in both
    let ef: [Ent; N] = [ABSENT, any_present()];
    let eg: [Ent; N] = [any_present(), any_present()];
    // the layer stores g before f, so that sorted order differs from insertion order
    let self_layer = mk_layer(g, f, eg[0], ef[0]);
    let super_layers = vec![mk_layer(g, f, eg[1], ef[1])];
    let obj = ObjectData {
        self_layer,
        super_layers,
        fields_order: OnceCell::new(),
        asserts_checked: Cell::new(true),
    };
    check_order(&obj, f, g, &ef, &eg, N);
    kani::cover!(eg[0].kind == 1 && eg[1].kind == 2 && ef[1].kind == 3, "g hidden by inheritance, f forced visible");
    core::mem::forget(obj);
}
}

// @harness id=c07_lookup_3 props=C07 tier=quick cap=1500
// @desc for every object of 3 layers with arbitrary entries for two names (absent / default / hidden / forced-visible / a well-formed Removed(d) marker): find_field and has_field from every start layer (super lookup) and has_visible_field equal the specification's layer semantics
// @bound 3 layers, 2 names, marker depths within the object; all entry combinations and all start layers in one query
// @funcs ObjectData::find_field, ObjectData::has_field, ObjectData::has_visible_field
// @out evaluation of field bodies (self/super inside expressions, +: fields, object asserts): interpreter loop
c07_lookup_harness!(c07_lookup_3, 3);

// @harness id=c07_lookup_4 props=C07 tier=attempt cap=2700
// @desc c07_lookup_3 with 4 layers (admits nested Removed markers)
// @bound 4 layers, 2 names
// @funcs ObjectData::find_field, ObjectData::has_field, ObjectData::has_visible_field
c07_lookup_harness!(c07_lookup_4, 4);



fn entry_of<'a, 'p>(layer: &'a ObjectLayer<'p>, name: InternedStr<'p>) -> Ent {
    match layer.fields.get(&name) {
        None => ABSENT,
        Some(ObjectField::Removed(d)) => Ent { kind: 4, depth: *d },
        Some(ObjectField::Normal(data)) => Ent {
            kind: match data.visibility {
                ast::Visibility::Default => 1,
                ast::Visibility::Hidden => 2,
                ast::Visibility::ForceVisible => 3,
            },
            depth: 0,
        },
    }
}

fn same_ent(a: Ent, b: Ent) -> bool {
    a.kind == b.kind && (a.kind != 4 || a.depth == b.depth)
}

fn two_layer_object<'p>(f: InternedStr<'p>, g: InternedStr<'p>) -> (ObjectData<'p>, [Ent; 2]) {
    // the field is present in the self layer with any visibility (concrete presence keeps the enum
    // variants of the stored `ObjectField`s constant, which is what keeps CBMC's memory in bounds:
    // fully symbolic entries needed 16-20 GB here); the super layer holds it or not
    let ef = [any_present(), if kani::any() { any_present() } else { ABSENT }];
    let eg = [ABSENT; 2];
    (mk_object(f, g, &ef, &eg), ef)
}

// @harness id=c07_extend_layers props=C07 tier=attempt cap=5400 mem=40
// @desc Program::extend_object(X, Y) (the + operator on objects) for 2-layer X and Y: the result's layer list is exactly Y.self, Y.super, X.self, X.super and every layer's entry for the name (visibility or Removed(depth)) is the source layer's. Associativity of + and the two-sided identity of {} on the layer model are corollaries: layer lists concatenate, and every observation (c07_lookup_*) is a function of the layer list only
// @bound X and Y of 2 layers each; the name is present in each self layer with any visibility and optionally in the super layer
// @funcs Program::extend_object, extend_object_clone_layer, extend_object_clone_field
eval_stubs! {
#[kani::proof]
#[kani::unwind(6)]
fn c07_extend_layers() {
    let arena = Arena::new();
    let mut program = bare_program(&arena);
    let f = program.str_interner.intern(&arena, "f");
    let g = program.str_interner.intern(&arena, "g");
    let (mut x, ex) = two_layer_object(f, g);
    let (mut y, ey) = two_layer_object(f, g);
    // object-level asserts: each of the four layers carries one or not
    let null_expr: &ir::Expr<'_> = arena.alloc(ir::Expr::Null);
    let ctx = crate::span::SpanContextId::kani_zero();
    let span = program.span_mgr.intern_span(ctx, 0, 0);
    let one_assert: &[ir::Assert<'_>] = arena.alloc_slice(&[ir::Assert { span, cond: null_expr, cond_span: span, msg: None }]);
    let has_assert: [bool; 4] = kani::any();
    if has_assert[0] { y.self_layer.asserts = one_assert; }
    if has_assert[1] { y.super_layers[0].asserts = one_assert; }
    if has_assert[2] { x.self_layer.asserts = one_assert; }
    if has_assert[3] { x.super_layers[0].asserts = one_assert; }
    let r = program.extend_object(&x, &y).view();
    assert!(r.super_layers.len() == 3, "2 + 2 layers");
    assert!(same_ent(entry_of(&r.self_layer, f), ey[0]), "layer 0 = Y.self");
    assert!(same_ent(entry_of(&r.super_layers[0], f), ey[1]), "layer 1 = Y.super");
    assert!(same_ent(entry_of(&r.super_layers[1], f), ex[0]), "layer 2 = X.self");
    assert!(same_ent(entry_of(&r.super_layers[2], f), ex[1]), "layer 3 = X.super");
    assert!(entry_of(&r.self_layer, g).kind == 0, "no other name appears");
    assert!(r.self_layer.asserts.len() == has_assert[0] as usize && r.super_layers[0].asserts.len() == has_assert[1] as usize
        && r.super_layers[1].asserts.len() == has_assert[2] as usize && r.super_layers[2].asserts.len() == has_assert[3] as usize,
        "every layer keeps its asserts");
    if has_assert[0] || has_assert[1] || has_assert[2] || has_assert[3] {
        assert!(!r.asserts_checked.get(), "an object that inherits an assert from ANY layer must still check it against the combined object");
    }
    kani::cover!(has_assert[3] && !has_assert[0] && !has_assert[1] && !has_assert[2], "the only assert sits in the deepest layer of the left operand");
    kani::cover!(ey[0].kind == 1 && ex[0].kind == 2 && ex[1].kind == 0, "Y overrides a hidden field of X with default visibility");
    core::mem::forget((x, y, r));
    core::mem::forget(program);
}
}

// @harness id=c07_extend_asserts props=C07,C02 tier=quick cap=1800
// @desc Program::extend_object(X, Y) (the + operator on objects) for a 2-layer X and a 1-layer Y WITHOUT fields, each of the three layers carrying an object assert or not: the result's layers are Y.self, X.self, X.super in that order, every layer keeps its asserts, and the result is marked "asserts not yet checked" whenever ANY layer - including the inherited (super) layer of the LEFT operand - carries one, so that (A + B) + C checks A's asserts just like A + (B + C)
// @bound X of 2 layers, Y of 1 layer, no fields; 3 symbolic assert placements
// @funcs Program::extend_object, extend_object_clone_layer
eval_stubs! {
#[kani::proof]
#[kani::unwind(6)]
fn c07_extend_asserts() {
    let arena = Arena::new();
    let mut program = bare_program(&arena);
    let f = program.str_interner.intern(&arena, "f");
    let g = program.str_interner.intern(&arena, "g");
    let none2 = [ABSENT; 2];
    let none1 = [ABSENT; 1];
    let mut x = mk_object(f, g, &none2, &none2);
    let mut y = mk_object(f, g, &none1, &none1);
    let null_expr: &ir::Expr<'_> = arena.alloc(ir::Expr::Null);
    let ctx = crate::span::SpanContextId::kani_zero();
    let span = program.span_mgr.intern_span(ctx, 0, 0);
    let one_assert: &[ir::Assert<'_>] = arena.alloc_slice(&[ir::Assert { span, cond: null_expr, cond_span: span, msg: None }]);
    let has_assert: [bool; 3] = kani::any();
    if has_assert[0] { y.self_layer.asserts = one_assert; }
    if has_assert[1] { x.self_layer.asserts = one_assert; }
    if has_assert[2] { x.super_layers[0].asserts = one_assert; }
    // the operands may already have had their own asserts checked
    x.asserts_checked.set(kani::any());
    y.asserts_checked.set(kani::any());
    let r = program.extend_object(&x, &y).view();
    assert!(r.super_layers.len() == 2, "1 + 2 layers");
    assert!(r.self_layer.asserts.len() == has_assert[0] as usize && r.super_layers[0].asserts.len() == has_assert[1] as usize
        && r.super_layers[1].asserts.len() == has_assert[2] as usize, "every layer keeps its asserts, in the order Y.self, X.self, X.super");
    if has_assert[0] || has_assert[1] || has_assert[2] {
        assert!(!r.asserts_checked.get(), "an object that inherits an assert from ANY layer must still check it against the combined object");
    }
    kani::cover!(has_assert[2] && !has_assert[0] && !has_assert[1], "the only assert sits in the super layer of the left operand");
    kani::cover!(!has_assert[0] && !has_assert[1] && !has_assert[2], "no asserts at all");
    core::mem::forget((x, y, r));
    core::mem::forget(program);
}
}

// @harness id=c07_remove_key_one_layer props=C07 tier=attempt cap=1800
// @desc std.objectRemoveKey at its Rust entry point on a ONE-layer object whose field f has ANY visibility (default, hidden, forced visible): afterwards f does not exist (has_field(0, f) is false, not only "not visible") - a hidden field is removed like any other
// @bound one-layer objects; the field present with a symbolic visibility
// @funcs Evaluator::do_std_object_remove_key, Program::object_with_field_removed, ObjectData::has_field
eval_stubs! {
#[kani::proof]
#[kani::unwind(6)]
fn c07_remove_key_one_layer() {
    let arena = Arena::new();
    let mut program = bare_program(&arena);
    let f = program.str_interner.intern(&arena, "f");
    let g = program.str_interner.intern(&arena, "g");
    let ef = [any_present()];
    let eg = [ABSENT; 1];
    let o = GcView::kani_unmanaged(mk_object(f, g, &ef, &eg));
    let keep = o.clone();
    let mut ev = bare_evaluator(&mut program);
    ev.value_stack.push(ValueData::Object(Gc::from(&o)));
    ev.value_stack.push(ValueData::String("f".into()));
    let res = ev.do_std_object_remove_key();
    assert!(res.is_ok(), "removing a key from an object never fails");
    match ev.value_stack.last() {
        Some(ValueData::Object(r)) => {
            let r = r.view();
            assert!(!r.has_field(0, f), "the removed field does not exist any more, whatever its visibility was");
            kani::cover!(ef[0].kind == 2, "a hidden field is removed");
            core::mem::forget(r);
        }
        _ => assert!(false, "an object is returned"),
    }
    core::mem::forget(res);
    core::mem::forget(ev);
    core::mem::forget(program);
    core::mem::forget((o, keep));
}
}

// @harness id=c07_remove_key props=C07 tier=attempt cap=5400 mem=40
// @desc std.objectRemoveKey at its Rust entry point on an arbitrary 2-layer object: afterwards the named field does not exist from the top layer (has_field(0), has_visible_field), whatever its previous visibility (hidden fields included), the original layers are kept unchanged below a Removed(2) marker
// @bound objects of 2 layers; the name is present in the self layer with any visibility and optionally in the super layer
// @funcs Evaluator::do_std_object_remove_key, Program::object_with_field_removed
eval_stubs! {
#[kani::proof]
#[kani::unwind(6)]
fn c07_remove_key() {
    let arena = Arena::new();
    let mut program = bare_program(&arena);
    let f = program.str_interner.intern(&arena, "f");
    let g = program.str_interner.intern(&arena, "g");
    let (o, eo) = two_layer_object(f, g);
    let existed = ref_find(&eo, 2, 0).is_some();
    let o = GcView::kani_unmanaged(o);
    let keep = o.clone();
    let mut ev = bare_evaluator(&mut program);
    ev.value_stack.push(ValueData::Object(Gc::from(&o)));
    ev.value_stack.push(ValueData::String("f".into()));
    let res = ev.do_std_object_remove_key();
    assert!(res.is_ok(), "removing a key from an object never fails");
    match ev.value_stack.last() {
        Some(ValueData::Object(r)) => {
            let r = r.view();
            assert!(!r.has_field(0, f), "the removed field does not exist any more");
            assert!(!r.has_visible_field(f), "nor is it visible");
            assert!(r.super_layers.len() == 2, "the original layers are kept below the marker");
            assert!(same_ent(entry_of(&r.self_layer, f), removed(2)), "marker covers exactly the original layers");
            assert!(same_ent(entry_of(&r.super_layers[0], f), eo[0]) && same_ent(entry_of(&r.super_layers[1], f), eo[1]), "original entries unchanged");
            kani::cover!(existed && eo[0].kind == 2, "a hidden field is removed");
            kani::cover!(existed && eo[1].kind == 3, "a field forced visible in the super layer is removed");
            core::mem::forget(r);
        }
        _ => assert!(false, "an object is returned"),
    }
    core::mem::forget(res);
    core::mem::forget(ev);
    core::mem::forget(program);
    core::mem::forget((o, keep));
}
}

// @harness id=c07_object_has_ex props=C07 tier=attempt cap=5400 mem=40
// @desc std.objectHasEx at its Rust entry point on an arbitrary 2-layer object and both values of inc_hidden: objectHasAll = the field exists (first visible layer), objectHas = it exists and its resolved visibility is not hidden
// @bound objects of 2 layers; the name is present in the self layer with any visibility and optionally in the super layer
// @funcs Evaluator::do_std_object_has_ex, ObjectData::has_field, ObjectData::has_visible_field
eval_stubs! {
#[kani::proof]
#[kani::unwind(6)]
fn c07_object_has_ex() {
    let arena = Arena::new();
    let mut program = bare_program(&arena);
    let f = program.str_interner.intern(&arena, "f");
    let g = program.str_interner.intern(&arena, "g");
    let (o, eo) = two_layer_object(f, g);
    let (exists, vis) = ref_visibility(&eo, 2);
    let o = GcView::kani_unmanaged(o);
    let keep = o.clone();
    let inc_hidden: bool = kani::any();
    let mut ev = bare_evaluator(&mut program);
    ev.value_stack.push(ValueData::Object(Gc::from(&o)));
    ev.value_stack.push(ValueData::String("f".into()));
    ev.value_stack.push(ValueData::Bool(inc_hidden));
    let res = ev.do_std_object_has_ex();
    assert!(res.is_ok(), "objectHasEx succeeds on an object, a string and a boolean");
    let want = if inc_hidden { exists } else { exists && vis != ast::Visibility::Hidden };
    assert!(matches!(ev.value_stack.last(), Some(ValueData::Bool(b)) if *b == want), "existence / visibility per the layer semantics");
    kani::cover!(exists && vis == ast::Visibility::Hidden && inc_hidden, "hidden field seen by objectHasAll");
    kani::cover!(exists && vis == ast::Visibility::Hidden && !inc_hidden, "hidden field not seen by objectHas");
    core::mem::forget(res);
    core::mem::forget(ev);
    core::mem::forget(program);
    core::mem::forget((o, keep));
}
}

// @harness id=c07_must_fail props=C07 tier=quick cap=1500 expect=fail
// @desc vacuity twin of the layer-model harnesses
eval_stubs! {
#[kani::proof]
#[kani::unwind(6)]
fn c07_must_fail() {
    let arena = Arena::new();
    let mut program = bare_program(&arena);
    let f = program.str_interner.intern(&arena, "f");
    let g = program.str_interner.intern(&arena, "g");
    let (x, _ex) = two_layer_object(f, g);
    let k: usize = kani::any();
    kani::assume(k <= 2);
    let _ = x.find_field(k, f);
    core::mem::forget(x);
    core::mem::forget(program);
    assert!(false, "reachability witness");
}
}
