//! C06: every numeric producer gates its result - `Ok` implies a finite number.
//! CBMC over-approximates the transcendental libm functions (their result is an
//! unconstrained double), so these verdicts are independent of the host libm:
//! whatever it returns, NaN or an infinity cannot get past the builtin.
use super::*;

// @harness id=c06_unary_math_finite props=C06,C01:thorough tier=quick cap=900
// @desc each of std.exp/log/log2/log10/sqrt/sin/cos/tan/asin/acos/atan/deg2rad/rad2deg/floor/ceil/exponent/mantissa, driven at its Rust entry point with any finite argument: no panic, and Ok implies the pushed result is a finite number
// @bound all finite doubles; one builtin per path selected by a symbolic index (17 builtins); no loops
// @funcs Evaluator::do_std_exp, do_std_log, do_std_log2, do_std_log10, do_std_sqrt, do_std_sin, do_std_cos, do_std_tan, do_std_asin, do_std_acos, do_std_atan, do_std_deg2rad, do_std_rad2deg, do_std_floor, do_std_ceil, do_std_exponent, do_std_mantissa, Evaluator::check_number_value, Evaluator::expect_std_func_arg_number
// @out correct rounding of the libm results (over-approximated); %-based builtins (fmod is not decidable by CBMC here)
eval_stubs! {
#[kani::proof]
#[kani::unwind(3)]
fn c06_unary_math_finite() {
    let arena = Arena::new();
    let mut program = bare_program(&arena);
    let mut ev = bare_evaluator(&mut program);
    let x = any_finite();
    ev.value_stack.push(ValueData::Number(x));
    let which: u8 = kani::any();
    kani::assume(which < 17);
    let res = match which {
        0 => ev.do_std_exp(),
        1 => ev.do_std_log(),
        2 => ev.do_std_log2(),
        3 => ev.do_std_log10(),
        4 => ev.do_std_sqrt(),
        5 => ev.do_std_sin(),
        6 => ev.do_std_cos(),
        7 => ev.do_std_tan(),
        8 => ev.do_std_asin(),
        9 => ev.do_std_acos(),
        10 => ev.do_std_atan(),
        11 => ev.do_std_deg2rad(),
        12 => ev.do_std_rad2deg(),
        13 => ev.do_std_floor(),
        14 => ev.do_std_ceil(),
        15 => ev.do_std_exponent(),
        _ => ev.do_std_mantissa(),
    };
    if res.is_ok() {
        let r = top_number(&ev);
        assert!(r.is_some(), "Ok pushes a number");
        assert!(r.unwrap().is_finite(), "Ok implies a finite result");
        assert!(ev.value_stack.len() == 1, "argument consumed, one result pushed");
        kani::cover!(which == 4, "sqrt Ok");
        kani::cover!(which == 12 && x > 1e300, "rad2deg Ok on a huge argument");
    } else {
        kani::cover!(which == 4 && x < 0.0, "sqrt of a negative number is an error");
        kani::cover!(which == 12, "rad2deg overflow is an error");
        assert!(which <= 12, "floor/ceil/exponent/mantissa never fail on a number");
    }
    core::mem::forget(res);
    core::mem::forget(ev);
    core::mem::forget(program);
}
}

// @harness id=c06_binary_math_finite props=C06,C01:thorough tier=quick cap=900
// @desc std.pow / std.atan2 / std.hypot with any two finite arguments: no panic; Ok implies a finite result
// @bound all pairs of finite doubles; no loops
// @funcs Evaluator::do_std_pow, Evaluator::do_std_atan2, Evaluator::do_std_hypot, Evaluator::check_number_value
eval_stubs! {
#[kani::proof]
#[kani::unwind(3)]
fn c06_binary_math_finite() {
    let arena = Arena::new();
    let mut program = bare_program(&arena);
    let mut ev = bare_evaluator(&mut program);
    let x = any_finite();
    let y = any_finite();
    ev.value_stack.push(ValueData::Number(x));
    ev.value_stack.push(ValueData::Number(y));
    let which: u8 = kani::any();
    kani::assume(which < 3);
    let res = match which {
        0 => ev.do_std_pow(),
        1 => ev.do_std_atan2(),
        _ => ev.do_std_hypot(),
    };
    if res.is_ok() {
        let r = top_number(&ev);
        assert!(r.is_some() && r.unwrap().is_finite(), "Ok implies a finite result");
        assert!(ev.value_stack.len() == 1, "arguments consumed, one result pushed");
        kani::cover!(which == 0, "pow Ok");
    } else {
        kani::cover!(which == 0, "pow error");
    }
    core::mem::forget(res);
    core::mem::forget(ev);
    core::mem::forget(program);
}
}

// @harness id=c06_sum_avg_step_finite props=C06,C01 tier=quick cap=900
// @desc one step of std.sum / std.avg from any reachable pre-state (any index of a 2-element array, any finite accumulator, any finite item): the carried accumulator and the final result are finite, or the step reports an error (inductive step: covers arrays of any length at the accumulator level)
// @bound array length 2, index in {0,1}; all finite accumulators and items
// @funcs Evaluator::do_std_sum_item, Evaluator::do_std_avg_item
eval_stubs! {
#[kani::proof]
#[kani::unwind(3)]
fn c06_sum_avg_step_finite() {
    let arena = Arena::new();
    let mut program = bare_program(&arena);
    let mut ev = bare_evaluator(&mut program);
    let t0 = done_thunk(ValueData::Number(any_finite()));
    let t1 = done_thunk(ValueData::Number(any_finite()));
    let array: GcView<ArrayData<'_>> =
        GcView::kani_unmanaged(vec![Gc::from(&t0), Gc::from(&t1)].into_boxed_slice());
    let keep = array.clone();
    let index: usize = kani::any();
    kani::assume(index < 2);
    let acc = any_finite();
    let item = any_finite();
    ev.value_stack.push(ValueData::Number(item));
    let avg: bool = kani::any();
    let res = if avg {
        ev.do_std_avg_item(array, index, acc)
    } else {
        ev.do_std_sum_item(array, index, acc)
    };
    if res.is_ok() {
        if index == 1 {
            let r = top_number(&ev);
            assert!(r.is_some() && r.unwrap().is_finite(), "final sum/average is finite");
            kani::cover!(!avg, "sum finished");
            kani::cover!(avg, "avg finished");
        } else {
            let n = ev.state_stack.len();
            assert!(n == 2, "continuation pushed");
            match &ev.state_stack[0] {
                State::StdSumItem { sum, index: i, .. } => {
                    assert!(!avg && *i == 1, "sum continues at the next index");
                    assert!(sum.is_finite(), "carried sum is finite");
                }
                State::StdAvgItem { sum, index: i, .. } => {
                    assert!(avg && *i == 1, "avg continues at the next index");
                    assert!(sum.is_finite(), "carried sum is finite");
                }
                _ => assert!(false, "unexpected continuation"),
            }
            kani::cover!(true, "continuation step");
        }
    } else {
        kani::cover!(true, "overflow reported as an error");
    }
    core::mem::forget(res);
    core::mem::forget(ev);
    core::mem::forget(program);
    core::mem::forget((t0, t1, keep));
}
}

// @harness id=c06_must_fail props=C06 tier=quick cap=900 expect=fail
// @desc vacuity twin: a numeric builtin harness reaches its end
eval_stubs! {
#[kani::proof]
#[kani::unwind(3)]
fn c06_must_fail() {
    let arena = Arena::new();
    let mut program = bare_program(&arena);
    let mut ev = bare_evaluator(&mut program);
    ev.value_stack.push(ValueData::Number(any_finite()));
    let res = ev.do_std_sqrt();
    core::mem::forget(res);
    core::mem::forget(ev);
    core::mem::forget(program);
    assert!(false, "reachability witness");
}
}
