//! C08 / C10 (and the DoThunk / GotThunk half of C04): single iterations of the REAL `Evaluator::run` loop.
//!
//! The comparison state machine (`EqualsValue`, `EqualsArray`, `CompareValue`, `CompareArray`), the frame-limit
//! test and the in-progress check are written inline in `run()`'s match; they have no function of their own.
//! These harnesses execute exactly one iteration of the real loop from a symbolic pre-state:
//!
//! * every method `run()` delegates to (`do_expr`, `execute_call`, all `do_std_*`, the manifesters, ...) is
//!   replaced by a panicking stub generated from run()'s CURRENT source (`run_stubs_all!`, tools/runstubs.py):
//!   reaching one fails the harness loudly; `report_error` keeps the error kind and drops the trace,
//!   `Program::maybe_gc` does nothing;
//! * the variant of the state under test is CONCRETE in each harness (with a symbolic variant CBMC's symbolic
//!   execution walks every arm of the match), its fields and the operand stacks are symbolic;
//! * one iteration is isolated by the loop's own exit: with `max_stack = 0` and a trace length that stays >= 1
//!   the limit test at the bottom of the loop returns `StackOverflow` right after the arm under test (the
//!   harness then asserts that this is what happened); where the arm pushes no new state the loop simply ends;
//! * `unwindset=..run@first:1`: the loop of `run()` gets the unwind bound 1, i.e. its back edge is never taken; the
//!   unwinding assertion (which stays on) proves that the limit test really ended the run after the first
//!   iteration. Without it the symbolic executor, which cannot always see that `stack_trace_len > max_stack` is
//!   true, walks a second iteration with a symbolic state, i.e. every arm of the match;
//! * `fs=4096`: CBMC's field-sensitivity limit is raised so that the `State` popped from the heap buffer of
//!   `state_stack` keeps its constant discriminant (DESIGN.md section 3).
use super::*;
use super::super::run_stubs_all;

fn is_stack_overflow(r: &EvalResult<()>) -> bool {
    matches!(r, Err(e) if matches!(e.kind, EvalErrorKind::StackOverflow))
}

fn any_ordering() -> std::cmp::Ordering {
    let k: u8 = kani::any();
    kani::assume(k < 3);
    match k {
        0 => std::cmp::Ordering::Less,
        1 => std::cmp::Ordering::Equal,
        _ => std::cmp::Ordering::Greater,
    }
}

/// A pending (never evaluated) thunk, unmanaged; distinct objects for distinct calls.
pub(super) fn pending_thunk<'p>(arena: &'p Arena, env: &GcView<ThunkEnv<'p>>) -> GcView<ThunkData<'p>> {
    let null_expr: &ir::Expr<'_> = arena.alloc(ir::Expr::Null);
    GcView::kani_unmanaged(ThunkData::new_pending_expr(null_expr, Gc::from(env)))
}

/// An array of `N` pending thunks (their evaluation would be needed to compare items).
pub(super) fn pending_array<'p, const N: usize>(
    arena: &'p Arena,
    env: &GcView<ThunkEnv<'p>>,
) -> (GcView<ArrayData<'p>>, [GcView<ThunkData<'p>>; N]) {
    let thunks: [GcView<ThunkData<'p>>; N] = core::array::from_fn(|_| pending_thunk(arena, env));
    let items: Vec<Gc<ThunkData<'p>>> = thunks.iter().map(Gc::from).collect();
    (GcView::kani_unmanaged(items.into_boxed_slice()), thunks)
}

// ---------------------------------------------------------------------------------------------------
// C10: the frame limit and the in-progress check
// ---------------------------------------------------------------------------------------------------
// Every harness below runs several CASES one after the other (each case builds its own program and evaluator and
// executes one iteration of run()); the state variant of each case is a literal, so each call of run() is
// executed symbolically with a constant discriminant.

fn frame_limit_case(enter: bool) {
    let arena = Arena::new();
    let mut program = bare_program(&arena);
    let max_stack: usize = kani::any();
    let len: usize = kani::any();
    program.max_stack = max_stack;
    let mut ev = bare_evaluator(&mut program);
    ev.stack_trace_len = len;
    kani::assume(enter || len >= 1); // TraceItem is only on the stack while its frame is counted
    kani::assume(!enter || len < usize::MAX);
    if enter {
        ev.state_stack.push(State::DelayedTraceItem);
    } else {
        ev.state_stack.push(State::TraceItem(TraceItem::CompareArrayItem { index: 0 }));
    }
    let r = ev.run();
    let new_len = if enter { len + 1 } else { len - 1 };
    assert!(ev.stack_trace_len == new_len, "trace length bookkeeping");
    assert!(is_stack_overflow(&r) == (new_len > max_stack), "StackOverflow exactly when the trace length exceeds the limit");
    assert!(r.is_ok() == (new_len <= max_stack), "within the limit the run goes on");
    kani::cover!(is_stack_overflow(&r) && enter, "limit exceeded on entering a frame");
    kani::cover!(is_stack_overflow(&r) && !enter, "limit (lowered meanwhile) exceeded on leaving a frame");
    kani::cover!(r.is_ok() && new_len == max_stack, "exactly at the limit is allowed");
    kani::cover!(r.is_ok() && new_len < max_stack, "below the limit");
    core::mem::forget(r);
    core::mem::forget(ev);
    core::mem::forget(program);
}

// @harness id=c10_frame_limit props=C10,C01 tier=quick cap=900 unwindset=9Evaluator3run@first:2
// @desc one iteration of the real Evaluator::run on DelayedTraceItem (a frame is re-entered: the trace length grows by one) and on TraceItem (a frame is left) with ANY trace length and ANY frame limit: the run stops with StackOverflow exactly when the new trace length exceeds the limit (strictly), otherwise it goes on (here: ends with Ok since nothing is left to do)
// @bound one loop iteration per case; stack_trace_len and max_stack arbitrary usize
// @funcs Evaluator::run, Evaluator::inc_trace_len, Evaluator::dec_trace_len
// @out depth behaviour of whole programs (that every recursion passes through a counted frame); the native stack
run_stubs_all! {
#[kani::proof]
#[kani::unwind(3)]
fn c10_frame_limit() {
    frame_limit_case(true);
    frame_limit_case(false);
}
}

// @harness id=c10_push_trace_counts props=C10 tier=quick cap=900
// @desc the only two ways a frame is pushed: push_trace_item adds exactly one TraceItem state and one to the trace length; delay_trace_item adds exactly one DelayedTraceItem state and takes one off (so that a suspended frame is not counted while its callee-side states run); together they keep stack_trace_len == #TraceItem - #DelayedTraceItem on the state stack, from any starting length
// @bound two operations; any starting length
// @funcs Evaluator::push_trace_item, Evaluator::delay_trace_item
eval_stubs! {
#[kani::proof]
#[kani::unwind(3)]
fn c10_push_trace_counts() {
    let arena = Arena::new();
    let mut program = bare_program(&arena);
    let mut ev = bare_evaluator(&mut program);
    let len: usize = kani::any();
    kani::assume(len < usize::MAX);
    ev.stack_trace_len = len;
    ev.push_trace_item(TraceItem::CompareArrayItem { index: 7 });
    assert!(ev.stack_trace_len == len + 1);
    assert!(ev.state_stack.len() == 1 && matches!(&ev.state_stack[0], State::TraceItem(TraceItem::CompareArrayItem { index: 7 })));
    ev.delay_trace_item();
    assert!(ev.stack_trace_len == len);
    assert!(ev.state_stack.len() == 2 && matches!(&ev.state_stack[1], State::DelayedTraceItem));
    kani::cover!(len == 0, "from an empty trace");
    core::mem::forget(ev);
    core::mem::forget(program);
}
}

/// which: 0 = Done, 1 = Pending(Expr), 2 = InProgress
fn do_thunk_case(which: u8) {
    let arena = Arena::new();
    let mut program = bare_program(&arena);
    program.max_stack = 0;
    let env = GcView::kani_unmanaged(ThunkEnv::new());
    let v = any_finite();
    let thunk = match which {
        0 => GcView::kani_unmanaged(ThunkData::new_done(ValueData::Number(v))),
        1 => pending_thunk(&arena, &env),
        _ => {
            let t = pending_thunk(&arena, &env);
            core::mem::forget(t.switch_state()); // now being evaluated further down the stack
            t
        }
    };
    let keep = thunk.clone();
    let mut ev = bare_evaluator(&mut program);
    ev.stack_trace_len = 1;
    ev.state_stack.push(State::DoThunk(thunk));
    let r = ev.run();
    match which {
        0 => {
            assert!(is_stack_overflow(&r), "the step ran");
            assert!(ev.state_stack.is_empty(), "a finished thunk schedules nothing");
            assert!(matches!(ev.value_stack.last(), Some(ValueData::Number(x)) if *x == v) && ev.value_stack.len() == 1, "its value is reused");
        }
        1 => {
            assert!(is_stack_overflow(&r), "the step ran");
            assert!(matches!(&*keep.state(), ThunkState::InProgress), "the thunk is marked in progress before its body runs");
            assert!(ev.state_stack.len() == 2, "GotThunk below, the body on top");
            assert!(matches!(&ev.state_stack[0], State::GotThunk(t) if t.kani_same(&keep)), "the result will be stored in this thunk");
            assert!(matches!(&ev.state_stack[1], State::Expr { expr: ir::Expr::Null, .. }), "the delayed expression is scheduled");
            assert!(ev.value_stack.is_empty());
        }
        _ => {
            assert!(matches!(&r, Err(e) if matches!(e.kind, EvalErrorKind::InfiniteRecursion)), "demanding a thunk that is being evaluated is reported as infinite recursion");
            assert!(matches!(&*keep.state(), ThunkState::InProgress));
        }
    }
    core::mem::forget(r);
    core::mem::forget(ev);
    core::mem::forget(program);
    core::mem::forget((keep, env));
}

fn got_thunk_case() {
    let arena = Arena::new();
    let mut program = bare_program(&arena);
    program.max_stack = 0;
    let env = GcView::kani_unmanaged(ThunkEnv::new());
    let thunk = pending_thunk(&arena, &env);
    core::mem::forget(thunk.switch_state());
    let keep = thunk.clone();
    let v = any_finite();
    let mut ev = bare_evaluator(&mut program);
    ev.stack_trace_len = 1;
    ev.value_stack.push(ValueData::Number(v));
    ev.state_stack.push(State::GotThunk(thunk));
    let r = ev.run();
    assert!(is_stack_overflow(&r), "the step ran");
    assert!(matches!(keep.get_value(), Some(ValueData::Number(x)) if x == v), "the thunk now holds the value");
    assert!(matches!(ev.value_stack.last(), Some(ValueData::Number(x)) if *x == v) && ev.value_stack.len() == 1, "and the consumer still gets it");
    core::mem::forget(r);
    core::mem::forget(ev);
    core::mem::forget(program);
    core::mem::forget((keep, env));
}

// @harness id=c04_do_thunk_steps props=C04 tier=thorough cap=1200 unwindset=9Evaluator3run@first:1
// @desc one iteration of the real Evaluator::run per case: DoThunk(t) with t Done(v): v is pushed and nothing is scheduled (a value is never computed twice); t Pending: t becomes InProgress, GotThunk(t) is scheduled below the delayed expression, nothing is pushed yet
// @bound one loop iteration per case; values = arbitrary finite numbers
// @funcs Evaluator::run (arm State::DoThunk), ThunkData::switch_state
run_stubs_all! {
#[kani::proof]
#[kani::unwind(3)]
fn c04_do_thunk_steps() {
    do_thunk_case(0);
    kani::cover!(true, "done thunk reused");
    do_thunk_case(1);
    kani::cover!(true, "pending thunk forced");
}
}

// @harness id=c10_in_progress_and_memoise props=C10,C04 tier=quick cap=1200 unwindset=9Evaluator3run@first:1
// @desc one iteration of the real Evaluator::run per case: DoThunk(t) with t InProgress (its own evaluation demands it: local x = x): the run fails with InfiniteRecursion instead of recursing; GotThunk(t) with a value on the stack: t becomes Done with exactly that value and the value stays for the consumer
// @bound one loop iteration per case
// @funcs Evaluator::run (arms State::DoThunk, State::GotThunk), ThunkData::switch_state, ThunkData::set_done
run_stubs_all! {
#[kani::proof]
#[kani::unwind(3)]
fn c10_in_progress_and_memoise() {
    do_thunk_case(2);
    kani::cover!(true, "in-progress thunk demanded");
    got_thunk_case();
    kani::cover!(true, "memoised");
}
}

// ---------------------------------------------------------------------------------------------------
// C08: ==
// ---------------------------------------------------------------------------------------------------

/// Builds the value of kind `k` (0 null, 1 bool, 2 number, 3 one-character string, 4 function, 5 empty array);
/// returns it together with a small integer abstraction of its content used by the oracle.
fn prim_value<'p>(k: u8, program: &Program<'p>) -> (ValueData<'p>, u64) {
    match k {
        0 => (ValueData::Null, 0),
        1 => {
            let b: bool = kani::any();
            (ValueData::Bool(b), b as u64)
        }
        2 => {
            let x = any_finite();
            // +0 and -0 are the same number
            (ValueData::Number(x), if x == 0.0 { 0 } else { x.to_bits() })
        }
        3 => {
            let c: u8 = kani::any();
            kani::assume(c == b'a' || c == b'b');
            (ValueData::String(if c == b'a' { "a".into() } else { "b".into() }), c as u64)
        }
        4 => (ValueData::Function(Gc::from(&program.identity_func)), 0),
        _ => (ValueData::Array(Gc::from(&program.empty_array)), 0),
    }
}


/// One iteration of run() on EqualsValue over two primitive-ish values of kinds kl, kr; returns the verdict
/// (None = the CompareFunctions error).
fn equals_prim_case(kl: u8, kr: u8) -> Option<bool> {
    let arena = Arena::new();
    let mut program = bare_program(&arena);
    program.max_stack = 0;
    let (lhs, la) = prim_value(kl, &program);
    let (rhs, ra) = prim_value(kr, &program);
    let mut ev = bare_evaluator(&mut program);
    ev.stack_trace_len = 1;
    ev.value_stack.push(lhs);
    ev.value_stack.push(rhs);
    ev.state_stack.push(State::EqualsValue);
    let r = ev.run();
    let verdict;
    if kl == 4 && kr == 4 {
        assert!(matches!(&r, Err(e) if matches!(e.kind, EvalErrorKind::CompareFunctions)), "functions cannot be compared");
        verdict = None;
    } else {
        assert!(is_stack_overflow(&r), "the step ran and produced no error of its own");
        assert!(ev.value_stack.is_empty(), "both operands consumed");
        assert!(ev.state_stack.is_empty(), "primitive comparison schedules nothing");
        assert!(ev.bool_stack.len() == 1);
        let expect = kl == kr && la == ra;
        assert!(ev.bool_stack[0] == expect, "== on primitives: same type and same content");
        verdict = Some(ev.bool_stack[0]);
    }
    core::mem::forget(r);
    core::mem::forget(ev);
    core::mem::forget(program);
    verdict
}

// @harness id=c08_equals_same_type props=C08 tier=quick cap=1500 unwindset=9Evaluator3run@first:1
// @desc one iteration of the real Evaluator::run on EqualsValue per case, operands of the same primitive type: null/null (true); any two booleans, any two finite numbers (+0 == -0), two one-character strings: true exactly when same content (hence reflexive and symmetric on primitives)
// @bound one loop iteration per case; all finite doubles; strings of one character
// @funcs Evaluator::run (arm State::EqualsValue)
run_stubs_all! {
#[kani::proof]
#[kani::unwind(4)]
fn c08_equals_same_type() {
    let v = equals_prim_case(0, 0);
    kani::cover!(v == Some(true), "null == null");
    let v = equals_prim_case(1, 1);
    kani::cover!(v == Some(true), "equal booleans");
    kani::cover!(v == Some(false), "different booleans");
    let v = equals_prim_case(2, 2);
    kani::cover!(v == Some(true), "equal numbers");
    kani::cover!(v == Some(false), "different numbers");
    let v = equals_prim_case(3, 3);
    kani::cover!(v == Some(true), "equal strings");
    kani::cover!(v == Some(false), "different strings");
}
}

// @harness id=c08_equals_mixed_types props=C08 tier=quick cap=1500 unwindset=9Evaluator3run@first:1
// @desc EqualsValue per case: function/function is the CompareFunctions error, never a boolean; values of different types (number/string, string/number, null/boolean, function/number) are false whatever the contents and never an error
// @bound one loop iteration per case; 5 type pairs
// @funcs Evaluator::run (arm State::EqualsValue)
// @out object == object: c08_equals_objects
run_stubs_all! {
#[kani::proof]
#[kani::unwind(4)]
fn c08_equals_mixed_types() {
    let v = equals_prim_case(4, 4);
    kani::cover!(v.is_none(), "functions: error");
    let v = equals_prim_case(2, 3);
    kani::cover!(v == Some(false), "number vs string");
    let v = equals_prim_case(3, 2);
    kani::cover!(v == Some(false), "string vs number");
    let v = equals_prim_case(0, 1);
    kani::cover!(v == Some(false), "null vs boolean");
    let v = equals_prim_case(4, 2);
    kani::cover!(v == Some(false), "function vs number");
}
}

// @harness id=c08_equals_array_other props=C08 tier=thorough cap=1500 unwindset=9Evaluator3run@first:1
// @desc EqualsValue per case: []/number is false; []/[] is true without evaluating anything
// @bound one loop iteration per case
// @funcs Evaluator::run (arm State::EqualsValue)
run_stubs_all! {
#[kani::proof]
#[kani::unwind(4)]
fn c08_equals_array_other() {
    let v = equals_prim_case(5, 2);
    kani::cover!(v == Some(false), "array vs number");
    let v = equals_prim_case(5, 5);
    kani::cover!(v == Some(true), "[] == []");
}
}

/// After a step that must continue with item `index`: the state stack holds
/// `[.., Aux{lhs, rhs, index}, TraceItem(CompareArrayItem{index}), <cmp state>, DoThunk(rhs[index]), DoThunk(lhs[index])]`
/// so lhs[index] is evaluated first, then rhs[index], then they are compared, then control returns to Aux.
fn array_continuation<'p>(
    ev: &Evaluator<'_, 'p>,
    base: usize,
    equals: bool,
    la: &GcView<ArrayData<'p>>,
    ra: &GcView<ArrayData<'p>>,
    l_items: &[GcView<ThunkData<'p>>],
    r_items: &[GcView<ThunkData<'p>>],
    index: usize,
) -> bool {
    if ev.state_stack.len() != base + 5 {
        return false;
    }
    let ok_aux = if equals {
        matches!(&ev.state_stack[base], State::EqualsArray { lhs, rhs, index: i } if *i == index && lhs.kani_same(la) && rhs.kani_same(ra))
    } else {
        matches!(&ev.state_stack[base], State::CompareArray { lhs, rhs, index: i } if *i == index && lhs.kani_same(la) && rhs.kani_same(ra))
    };
    let ok_trace = matches!(&ev.state_stack[base + 1], State::TraceItem(TraceItem::CompareArrayItem { index: i }) if *i == index);
    let ok_cmp = if equals {
        matches!(&ev.state_stack[base + 2], State::EqualsValue)
    } else {
        matches!(&ev.state_stack[base + 2], State::CompareValue)
    };
    let ok_r = matches!(&ev.state_stack[base + 3], State::DoThunk(t) if t.kani_same(&r_items[index]));
    let ok_l = matches!(&ev.state_stack[base + 4], State::DoThunk(t) if t.kani_same(&l_items[index]));
    ok_aux && ok_trace && ok_cmp && ok_r && ok_l
}


fn equals_arrays_start_case<const NL: usize, const NR: usize>() {
    let arena = Arena::new();
    let mut program = bare_program(&arena);
    program.max_stack = 0;
    let env = GcView::kani_unmanaged(ThunkEnv::new());
    let (la, l_items) = pending_array::<NL>(&arena, &env);
    let (ra, r_items) = pending_array::<NR>(&arena, &env);
    let mut ev = bare_evaluator(&mut program);
    ev.stack_trace_len = 1;
    ev.value_stack.push(ValueData::Array(Gc::from(&la)));
    ev.value_stack.push(ValueData::Array(Gc::from(&ra)));
    ev.state_stack.push(State::EqualsValue);
    let r = ev.run();
    assert!(is_stack_overflow(&r), "the step ran");
    assert!(ev.value_stack.is_empty());
    if NL != NR {
        assert!(ev.bool_stack.len() == 1 && !ev.bool_stack[0], "arrays of different lengths are different, no item is evaluated");
        assert!(ev.state_stack.is_empty());
    } else {
        assert!(ev.bool_stack.is_empty(), "no verdict before the items are compared");
        assert!(array_continuation(&ev, 0, true, &la, &ra, &l_items, &r_items, 0), "comparison starts with item 0 of both arrays");
        assert!(ev.stack_trace_len == 2, "the item comparison is a counted frame");
    }
    core::mem::forget(r);
    core::mem::forget(ev);
    core::mem::forget(program);
    core::mem::forget((la, ra, l_items, r_items, env));
}

fn equals_array_step_case() {
    let arena = Arena::new();
    let mut program = bare_program(&arena);
    program.max_stack = 0;
    let env = GcView::kani_unmanaged(ThunkEnv::new());
    let (la, l_items) = pending_array::<3>(&arena, &env);
    let (ra, r_items) = pending_array::<3>(&arena, &env);
    let index: usize = kani::any();
    kani::assume(index < 3);
    let item_eq: bool = kani::any();
    let mut ev = bare_evaluator(&mut program);
    ev.stack_trace_len = 1;
    ev.bool_stack.push(item_eq);
    ev.state_stack.push(State::EqualsArray { lhs: la.clone(), rhs: ra.clone(), index });
    let r = ev.run();
    assert!(is_stack_overflow(&r), "the step ran");
    if index == 2 {
        assert!(ev.bool_stack.len() == 1 && ev.bool_stack[0] == item_eq, "last item: its verdict is the verdict");
        assert!(ev.state_stack.is_empty());
        kani::cover!(item_eq, "all items equal");
    } else if !item_eq {
        assert!(ev.bool_stack.len() == 1 && !ev.bool_stack[0], "first different item decides");
        assert!(ev.state_stack.is_empty(), "later items are not evaluated");
        kani::cover!(true, "early exit");
    } else {
        assert!(ev.bool_stack.is_empty());
        assert!(array_continuation(&ev, 0, true, &la, &ra, &l_items, &r_items, index + 1), "continues with the next item of both arrays");
        kani::cover!(index == 0, "continue from 0");
        kani::cover!(index == 1, "continue from 1");
    }
    core::mem::forget(r);
    core::mem::forget(ev);
    core::mem::forget(program);
    core::mem::forget((la, ra, l_items, r_items, env));
}

// @harness id=c08_equals_arrays_start props=C08 tier=quick cap=1200 unwindset=9Evaluator3run@first:1
// @desc one iteration of the real Evaluator::run per case. EqualsValue over two 2-element arrays of unevaluated items: no verdict yet; scheduled, in evaluation order: lhs[0], rhs[0], their EqualsValue, then EqualsArray{index 0}, inside one counted frame. Lengths 1 and 2: false at once, no item evaluated
// @bound one loop iteration per case; arrays of length 1..2
// @funcs Evaluator::run (arm State::EqualsValue)
run_stubs_all! {
#[kani::proof]
#[kani::unwind(5)]
fn c08_equals_arrays_start() {
    equals_arrays_start_case::<2, 2>();
    kani::cover!(true, "same length: item 0 scheduled");
    equals_arrays_start_case::<1, 2>();
    kani::cover!(true, "different lengths");
}
}

// @harness id=c08_equals_array_step props=C08 tier=quick cap=1200 unwindset=9Evaluator3run@first:1
// @desc one iteration of the real Evaluator::run on EqualsArray{lhs, rhs, index} over two 3-element arrays, from ANY index and ANY outcome of the item comparison just made: at the last index the item's verdict is the array's verdict; before it a false item gives false at once (later items are never evaluated) and a true item schedules exactly the comparison of item index+1. By induction over the index: arrays are equal iff same length and all items equal, compared left to right
// @bound one loop iteration; arrays of length 3, index in 0..3
// @funcs Evaluator::run (arm State::EqualsArray)
run_stubs_all! {
#[kani::proof]
#[kani::unwind(5)]
fn c08_equals_array_step() {
    equals_array_step_case();
}
}

// ---------------------------------------------------------------------------------------------------
// C08: <  (CompareValue / CompareArray)
// ---------------------------------------------------------------------------------------------------

/// One iteration of run() on CompareValue over two values of kinds kl, kr; returns the ordering pushed (None = error).
fn compare_prim_case(kl: u8, kr: u8) -> Option<std::cmp::Ordering> {
    let arena = Arena::new();
    let mut program = bare_program(&arena);
    program.max_stack = 0;
    let (lhs, la) = prim_value(kl, &program);
    let (rhs, ra) = prim_value(kr, &program);
    let (ln, rn) = match (&lhs, &rhs) {
        (ValueData::Number(a), ValueData::Number(b)) => (*a, *b),
        _ => (0.0, 0.0),
    };
    let mut ev = bare_evaluator(&mut program);
    ev.stack_trace_len = 1;
    ev.value_stack.push(lhs);
    ev.value_stack.push(rhs);
    ev.state_stack.push(State::CompareValue);
    let r = ev.run();
    if kl == 2 && kr == 2 {
        assert!(is_stack_overflow(&r));
        assert!(ev.cmp_ord_stack.len() == 1);
        let o = ev.cmp_ord_stack[0];
        assert!((o == std::cmp::Ordering::Less) == (ln < rn) && (o == std::cmp::Ordering::Greater) == (ln > rn) && (o == std::cmp::Ordering::Equal) == (ln == rn),
                "numbers are ordered numerically (total on finite numbers, -0 equals +0)");
    } else if kl == 3 && kr == 3 {
        assert!(is_stack_overflow(&r));
        assert!(ev.cmp_ord_stack.len() == 1 && ev.cmp_ord_stack[0] == la.cmp(&ra), "strings are ordered by their characters");
    } else if kl == 5 && kr == 5 {
        assert!(is_stack_overflow(&r));
        assert!(ev.cmp_ord_stack.len() == 1 && ev.cmp_ord_stack[0] == std::cmp::Ordering::Equal, "[] is equal to []");
    } else {
        assert!(ev.cmp_ord_stack.is_empty(), "no ordering verdict");
        let ok = match (kl, kr) {
            (0, 0) => matches!(&r, Err(e) if matches!(e.kind, EvalErrorKind::CompareNullInequality)),
            (1, 1) => matches!(&r, Err(e) if matches!(e.kind, EvalErrorKind::CompareBooleanInequality)),
            (4, 4) => matches!(&r, Err(e) if matches!(e.kind, EvalErrorKind::CompareFunctions)),
            _ => matches!(&r, Err(e) if matches!(e.kind, EvalErrorKind::CompareDifferentTypesInequality { .. })),
        };
        assert!(ok, "values that cannot be ordered give the specific error, never an ordering");
    }
    let o = ev.cmp_ord_stack.last().copied();
    core::mem::forget(r);
    core::mem::forget(ev);
    core::mem::forget(program);
    o
}

// @harness id=c08_compare_ordered_types props=C08 tier=quick cap=1500 unwindset=9Evaluator3run@first:1
// @desc one iteration of the real Evaluator::run on CompareValue per case: any two finite numbers: the ordering pushed is the numeric one (Less iff a < b, Greater iff a > b, Equal iff a == b; exactly one holds since no NaN can occur, and swapping the operands reverses it); two one-character strings: ordered by character; []/[]: Equal
// @bound one loop iteration per case; all finite doubles; one-character ASCII strings (code-point order of longer / non-ASCII strings: c08_string_order_is_codepoint_order)
// @funcs Evaluator::run (arm State::CompareValue)
run_stubs_all! {
#[kani::proof]
#[kani::unwind(4)]
fn c08_compare_ordered_types() {
    let o = compare_prim_case(2, 2);
    kani::cover!(o == Some(std::cmp::Ordering::Less), "number less");
    kani::cover!(o == Some(std::cmp::Ordering::Equal), "number equal");
    kani::cover!(o == Some(std::cmp::Ordering::Greater), "number greater");
    let o = compare_prim_case(3, 3);
    kani::cover!(o == Some(std::cmp::Ordering::Less), "string less");
    kani::cover!(o == Some(std::cmp::Ordering::Equal), "string equal");
    kani::cover!(o == Some(std::cmp::Ordering::Greater), "string greater");
    let o = compare_prim_case(5, 5);
    kani::cover!(o == Some(std::cmp::Ordering::Equal), "[] vs []");
}
}

// @harness id=c08_compare_unordered_types props=C08 tier=quick cap=1500 unwindset=9Evaluator3run@first:1
// @desc CompareValue per case: null/null, boolean/boolean, function/function and mixed types (number/string, []/number) give the specific error, never an ordering
// @bound one loop iteration per case; 5 type pairs
// @funcs Evaluator::run (arm State::CompareValue)
run_stubs_all! {
#[kani::proof]
#[kani::unwind(4)]
fn c08_compare_unordered_types() {
    let o = compare_prim_case(0, 0);
    kani::cover!(o.is_none(), "null vs null: error");
    let o = compare_prim_case(1, 1);
    kani::cover!(o.is_none(), "boolean vs boolean: error");
    let o = compare_prim_case(4, 4);
    kani::cover!(o.is_none(), "function vs function: error");
    let o = compare_prim_case(2, 3);
    kani::cover!(o.is_none(), "number vs string: error");
    let o = compare_prim_case(5, 2);
    kani::cover!(o.is_none(), "array vs number: error");
}
}

fn compare_arrays_start_case<const NL: usize, const NR: usize>() {
    let arena = Arena::new();
    let mut program = bare_program(&arena);
    program.max_stack = 0;
    let env = GcView::kani_unmanaged(ThunkEnv::new());
    let (la, l_items) = pending_array::<NL>(&arena, &env);
    let (ra, r_items) = pending_array::<NR>(&arena, &env);
    let mut ev = bare_evaluator(&mut program);
    ev.stack_trace_len = 1;
    ev.value_stack.push(ValueData::Array(Gc::from(&la)));
    ev.value_stack.push(ValueData::Array(Gc::from(&ra)));
    ev.state_stack.push(State::CompareValue);
    let r = ev.run();
    assert!(is_stack_overflow(&r), "the step ran");
    assert!(ev.value_stack.is_empty());
    if NL == 0 || NR == 0 {
        let expect = NL.cmp(&NR);
        assert!(ev.cmp_ord_stack.len() == 1 && ev.cmp_ord_stack[0] == expect, "an empty array is smaller than any non-empty one");
        assert!(ev.state_stack.is_empty());
    } else {
        assert!(ev.cmp_ord_stack.is_empty());
        assert!(array_continuation(&ev, 0, false, &la, &ra, &l_items, &r_items, 0), "comparison starts with item 0 of both arrays");
    }
    core::mem::forget(r);
    core::mem::forget(ev);
    core::mem::forget(program);
    core::mem::forget((la, ra, l_items, r_items, env));
}

fn compare_array_step_case<const NL: usize, const NR: usize>() {
    let arena = Arena::new();
    let mut program = bare_program(&arena);
    program.max_stack = 0;
    let env = GcView::kani_unmanaged(ThunkEnv::new());
    let (la, l_items) = pending_array::<NL>(&arena, &env);
    let (ra, r_items) = pending_array::<NR>(&arena, &env);
    let index: usize = kani::any();
    kani::assume(index < NL && index < NR); // the item just compared exists in both
    let item_cmp = any_ordering();
    let mut ev = bare_evaluator(&mut program);
    ev.stack_trace_len = 1;
    ev.cmp_ord_stack.push(item_cmp);
    ev.state_stack.push(State::CompareArray { lhs: la.clone(), rhs: ra.clone(), index });
    let r = ev.run();
    assert!(is_stack_overflow(&r), "the step ran");
    if item_cmp != std::cmp::Ordering::Equal {
        assert!(ev.cmp_ord_stack.len() == 1 && ev.cmp_ord_stack[0] == item_cmp, "the first differing item decides");
        assert!(ev.state_stack.is_empty(), "later items are not evaluated");
    } else if index + 1 == NL || index + 1 == NR {
        // one side is exhausted: a proper prefix is smaller, equal lengths are equal
        let expect = NL.cmp(&NR);
        assert!(ev.cmp_ord_stack.len() == 1 && ev.cmp_ord_stack[0] == expect, "prefix rule");
        assert!(ev.state_stack.is_empty());
    } else {
        assert!(ev.cmp_ord_stack.is_empty());
        assert!(array_continuation(&ev, 0, false, &la, &ra, &l_items, &r_items, index + 1), "continues with the next item of both arrays");
    }
    kani::cover!(item_cmp != std::cmp::Ordering::Equal, "decided by an item");
    kani::cover!(item_cmp == std::cmp::Ordering::Equal && (index + 1 == NL || index + 1 == NR), "one side exhausted: prefix rule applied");
    kani::cover!(item_cmp == std::cmp::Ordering::Equal && index + 1 != NL && index + 1 != NR, "continue");
    core::mem::forget(r);
    core::mem::forget(ev);
    core::mem::forget(program);
    core::mem::forget((la, ra, l_items, r_items, env));
}

// @harness id=c08_compare_arrays_empty props=C08 tier=quick cap=1200 unwindset=9Evaluator3run@first:1
// @desc one iteration of the real Evaluator::run on CompareValue over arrays of unevaluated items per case: [] vs [x, y] is Less and [x, y] vs [] is Greater (an empty array is smaller than any non-empty one, on whichever side it stands); nothing is evaluated
// @bound one loop iteration per case; lengths 0 and 2
// @funcs Evaluator::run (arm State::CompareValue)
run_stubs_all! {
#[kani::proof]
#[kani::unwind(5)]
fn c08_compare_arrays_empty() {
    compare_arrays_start_case::<0, 2>();
    kani::cover!(true, "lhs empty");
    compare_arrays_start_case::<2, 0>();
    kani::cover!(true, "rhs empty");
}
}

// @harness id=c08_compare_arrays_start props=C08 tier=quick cap=1200 unwindset=9Evaluator3run@first:1
// @desc one iteration of the real Evaluator::run on CompareValue over non-empty arrays of lengths 1 and 2: item 0 of both is scheduled (lhs first), then CompareValue, then CompareArray{index 0}
// @bound one loop iteration; lengths 1 and 2
// @funcs Evaluator::run (arm State::CompareValue)
run_stubs_all! {
#[kani::proof]
#[kani::unwind(5)]
fn c08_compare_arrays_start() {
    compare_arrays_start_case::<1, 2>();
    kani::cover!(true, "item 0 scheduled");
}
}

macro_rules! compare_array_step_harness {
    ($name:ident, $nl:expr, $nr:expr) => {
        run_stubs_all! {
        #[kani::proof]
        #[kani::unwind(5)]
        fn $name() {
            compare_array_step_case::<{ $nl }, { $nr }>();
        }
        }
    };
}

// @harness id=c08_compare_array_step_2_3 props=C08 tier=quick cap=1200 unwindset=9Evaluator3run@first:1
// @desc one iteration of the real Evaluator::run on CompareArray{lhs (2 items), rhs (3 items), index} from ANY index present in both arrays and ANY outcome of the item comparison just made: a non-Equal item decides (later items are not evaluated); on Equal, if lhs is exhausted first the result is Less (a proper prefix is smaller), otherwise item index+1 of both is scheduled. With the twins _3_2 and _3_3 and induction over the index this is the lexicographic order
// @bound one loop iteration; lengths 2 and 3
// @funcs Evaluator::run (arm State::CompareArray)
compare_array_step_harness!(c08_compare_array_step_2_3, 2, 3);
// @harness id=c08_compare_array_step_3_2 props=C08 tier=quick cap=1200 unwindset=9Evaluator3run@first:1
// @desc as c08_compare_array_step_2_3 with lengths 3 and 2 (rhs exhausted first: Greater)
// @bound one loop iteration; lengths 3 and 2
// @funcs Evaluator::run (arm State::CompareArray)
compare_array_step_harness!(c08_compare_array_step_3_2, 3, 2);
// @harness id=c08_compare_array_step_3_3 props=C08 tier=thorough cap=1200 unwindset=9Evaluator3run@first:1
// @desc as c08_compare_array_step_2_3 with lengths 3 and 3 (both exhausted together: Equal)
// @bound one loop iteration; lengths 3 and 3
// @funcs Evaluator::run (arm State::CompareArray)
compare_array_step_harness!(c08_compare_array_step_3_3, 3, 3);

/// which: 0 `<`, 1 `<=`, 2 `>`, 3 `>=`
fn cmp_to_bool_case(which: u8) {
    let arena = Arena::new();
    let mut program = bare_program(&arena);
    program.max_stack = 0;
    let mut ev = bare_evaluator(&mut program);
    ev.stack_trace_len = 1;
    let o = any_ordering();
    ev.cmp_ord_stack.push(o);
    ev.state_stack.push(match which {
        0 => State::CmpOrdToBoolValueIsLt,
        1 => State::CmpOrdToBoolValueIsLe,
        2 => State::CmpOrdToBoolValueIsGt,
        _ => State::CmpOrdToBoolValueIsGe,
    });
    let r = ev.run();
    assert!(is_stack_overflow(&r), "the step ran");
    assert!(ev.cmp_ord_stack.is_empty());
    let expect = match which {
        0 => o == std::cmp::Ordering::Less,
        1 => o != std::cmp::Ordering::Greater,
        2 => o == std::cmp::Ordering::Greater,
        _ => o != std::cmp::Ordering::Less,
    };
    assert!(matches!(ev.value_stack.last(), Some(ValueData::Bool(b)) if *b == expect) && ev.value_stack.len() == 1, "the operator is the ordering's predicate");
    kani::cover!(expect, "true");
    kani::cover!(!expect, "false");
    core::mem::forget(r);
    core::mem::forget(ev);
    core::mem::forget(program);
}

fn invert_bool_case() {
    let arena = Arena::new();
    let mut program = bare_program(&arena);
    program.max_stack = 0;
    let mut ev = bare_evaluator(&mut program);
    ev.stack_trace_len = 1;
    let b: bool = kani::any();
    ev.bool_stack.push(b);
    ev.state_stack.push(State::InvertBool);
    let r = ev.run();
    assert!(is_stack_overflow(&r), "the step ran");
    assert!(ev.bool_stack.len() == 1 && ev.bool_stack[0] == !b);
    kani::cover!(b, "true becomes false");
    core::mem::forget(r);
    core::mem::forget(ev);
    core::mem::forget(program);
}

// @harness id=c08_ordering_to_operators props=C08 tier=quick cap=1200 unwindset=9Evaluator3run@first:1
// @desc one iteration of the real Evaluator::run per case: CmpOrdToBoolValueIsLt / IsLe / IsGt / IsGe turn the ordering into the operator's boolean: `<` true exactly for Less, `<=` for Less or Equal, `>` for Greater, `>=` for Greater or Equal (so a < b and b < a are never both true, a < a is false, a <= b iff not b < a); InvertBool (how != is obtained from ==) negates the boolean on top of the boolean stack
// @bound one loop iteration per case; the three orderings
// @funcs Evaluator::run (arms State::CmpOrdToBoolValueIs{Lt,Le,Gt,Ge}, State::InvertBool)
run_stubs_all! {
#[kani::proof]
#[kani::unwind(3)]
fn c08_ordering_to_operators() {
    cmp_to_bool_case(0);
    cmp_to_bool_case(1);
    cmp_to_bool_case(2);
    cmp_to_bool_case(3);
    invert_bool_case();
}
}

// @harness id=c08_string_order_is_codepoint_order props=C08,C18 tier=quick cap=900
// @desc what CompareValue uses on strings is `str::cmp` (byte-wise); for any two strings of two arbitrary Unicode scalar values each (every UTF-8 width at every position) the byte-wise order of the UTF-8 encodings equals the lexicographic order of the code-point sequences - decided, not assumed
// @bound strings of exactly 2 characters (2..8 bytes)
// @funcs str::cmp as used by Evaluator::run (arm State::CompareValue)
#[kani::proof]
#[kani::unwind(10)]
fn c08_string_order_is_codepoint_order() {
    let a: [char; 2] = [kani::any(), kani::any()];
    let b: [char; 2] = [kani::any(), kani::any()];
    let mut ab = [0u8; 8];
    let mut bb = [0u8; 8];
    let mut an = 0;
    let mut bn = 0;
    an += a[0].encode_utf8(&mut ab[an..]).len();
    an += a[1].encode_utf8(&mut ab[an..]).len();
    bn += b[0].encode_utf8(&mut bb[bn..]).len();
    bn += b[1].encode_utf8(&mut bb[bn..]).len();
    // byte-wise comparison as `str::cmp` does it (common prefix, then length)
    let by_bytes = ab[..an].cmp(&bb[..bn]);
    let by_chars = if a[0] != b[0] { a[0].cmp(&b[0]) } else { a[1].cmp(&b[1]) };
    assert!(by_bytes == by_chars, "UTF-8 byte order is code-point order");
    kani::cover!(an == 8 && bn == 2, "widest against narrowest");
    kani::cover!(by_bytes == std::cmp::Ordering::Less && an > bn, "the longer encoding can be the smaller string");
}

// @harness id=c08_must_fail props=C08,C10 tier=quick cap=900 expect=fail unwindset=9Evaluator3run@first:1
// @desc vacuity twin of the run-step harnesses
run_stubs_all! {
#[kani::proof]
#[kani::unwind(3)]
fn c08_must_fail() {
    let arena = Arena::new();
    let mut program = bare_program(&arena);
    program.max_stack = 0;
    let mut ev = bare_evaluator(&mut program);
    ev.stack_trace_len = 1;
    ev.value_stack.push(ValueData::Number(any_finite()));
    ev.value_stack.push(ValueData::Number(any_finite()));
    ev.state_stack.push(State::EqualsValue);
    let r = ev.run();
    core::mem::forget(r);
    core::mem::forget(ev);
    core::mem::forget(program);
    assert!(false, "reachability witness");
}
}

// ---------------------------------------------------------------------------------------------------
// C08: == on objects (EqualsValue object arm, EqualsObject)
// ---------------------------------------------------------------------------------------------------
// The objects are built with `fields_order` ALREADY INITIALISED (the OnceCell holds the sorted field list, as it
// does after any earlier use of the object), consistent with the layer contents, so that the comparison logic is
// decided separately from the computation of the field order (C07). Field thunks are pre-set as well.

pub(super) fn vis3(k: u8) -> ast::Visibility {
    match k {
        0 => ast::Visibility::Default,
        1 => ast::Visibility::Hidden,
        _ => ast::Visibility::ForceVisible,
    }
}

fn obj_field<'p>(vis: ast::Visibility, thunk: &GcView<ThunkData<'p>>) -> ObjectField<'p> {
    ObjectField::Normal(ObjectFieldData {
        base_env: None,
        visibility: vis,
        expr: None,
        thunk: OnceCell::from(Gc::from(thunk)),
    })
}

/// A one-layer object with the fields `names[i]: vis[i]` (names sorted), `fields_order` initialised.
pub(super) fn one_layer_object<'p, const N: usize>(
    names: [InternedStr<'p>; N],
    vis: [ast::Visibility; N],
    thunks: &[GcView<ThunkData<'p>>; N],
) -> GcView<ObjectData<'p>> {
    let mut slots: [Option<(InternedStr<'p>, ObjectField<'p>)>; 4] = [None, None, None, None];
    let mut i = 0;
    while i < N {
        slots[i] = Some((names[i], obj_field(vis[i], &thunks[i])));
        i += 1;
    }
    let order: Vec<(InternedStr<'p>, ast::Visibility)> = (0..N).map(|i| (names[i], vis[i])).collect();
    GcView::kani_unmanaged(ObjectData {
        self_layer: ObjectLayer {
            is_top: true,
            locals: &[],
            base_env: None,
            env: OnceCell::new(),
            fields: FHashMap::kani_from_slots(slots),
            asserts: &[],
        },
        super_layers: Vec::new(),
        fields_order: OnceCell::from(order.into_boxed_slice()),
        asserts_checked: Cell::new(true),
    })
}

/// A visibility code: the given one if `k` is 0..=2, ANY of the three if `k` is negative.
fn vis_code(k: i8) -> u8 {
    if k >= 0 {
        k as u8
    } else {
        let v: u8 = kani::any();
        kani::assume(v < 3);
        v
    }
}

/// EqualsValue on {a, b} (lhs) and {a, b, c} (rhs); visibility codes: 0 default, 1 hidden, 2 forced, -1 = ANY.
fn equals_objects_start_case(lk: [i8; 2], rk: [i8; 3]) {
    let arena = Arena::new();
    let mut program = bare_program(&arena);
    program.max_stack = 0;
    let a = program.str_interner.intern(&arena, "a");
    let b = program.str_interner.intern(&arena, "b");
    let c = program.str_interner.intern(&arena, "c");
    let env = GcView::kani_unmanaged(ThunkEnv::new());
    let lt: [GcView<ThunkData<'_>>; 2] = core::array::from_fn(|_| pending_thunk(&arena, &env));
    let rt: [GcView<ThunkData<'_>>; 3] = core::array::from_fn(|_| pending_thunk(&arena, &env));
    let lv: [u8; 2] = [vis_code(lk[0]), vis_code(lk[1])];
    let rv: [u8; 3] = [vis_code(rk[0]), vis_code(rk[1]), vis_code(rk[2])];
    let lhs = one_layer_object([a, b], [vis3(lv[0]), vis3(lv[1])], &lt);
    let rhs = one_layer_object([a, b, c], [vis3(rv[0]), vis3(rv[1]), vis3(rv[2])], &rt);
    let mut ev = bare_evaluator(&mut program);
    ev.stack_trace_len = 1;
    ev.value_stack.push(ValueData::Object(Gc::from(&lhs)));
    ev.value_stack.push(ValueData::Object(Gc::from(&rhs)));
    ev.state_stack.push(State::EqualsValue);
    let r = ev.run();
    assert!(is_stack_overflow(&r), "the step ran");
    assert!(ev.value_stack.is_empty());
    // specification: the two objects must have the same set of VISIBLE field names (hidden fields do not count)
    let lvis = [lv[0] != 1, lv[1] != 1, false];
    let rvis = [rv[0] != 1, rv[1] != 1, rv[2] != 1];
    let same = lvis[0] == rvis[0] && lvis[1] == rvis[1] && lvis[2] == rvis[2];
    if !same {
        assert!(ev.bool_stack.len() == 1 && !ev.bool_stack[0], "different visible field sets: not equal, no field is evaluated");
        assert!(ev.state_stack.is_empty());
    } else if !lvis[0] && !lvis[1] {
        assert!(ev.bool_stack.len() == 1 && ev.bool_stack[0], "no visible fields on either side: equal");
        assert!(ev.state_stack.is_empty());
    } else {
        // comparison starts with the smallest visible name
        let first = if lvis[0] { 0 } else { 1 };
        let first_name = if first == 0 { a } else { b };
        assert!(ev.bool_stack.is_empty(), "no verdict before the fields are compared");
        assert!(ev.state_stack.len() == 5);
        let rest_ok = matches!(&ev.state_stack[0], State::EqualsObject { lhs: l, rhs: rr, rem_fields }
            if l.kani_same(&lhs) && rr.kani_same(&rhs)
               && ((first == 0 && lvis[1] && rem_fields.len() == 1 && rem_fields[0] == b) || ((first == 1 || !lvis[1]) && rem_fields.is_empty())));
        assert!(rest_ok, "the remaining visible fields are kept for later, in order");
        assert!(matches!(&ev.state_stack[1], State::TraceItem(TraceItem::CompareObjectField { name }) if *name == first_name));
        assert!(matches!(&ev.state_stack[2], State::EqualsValue));
        assert!(matches!(&ev.state_stack[3], State::DoThunk(t) if t.kani_same(&rt[first])), "the rhs field of that name");
        assert!(matches!(&ev.state_stack[4], State::DoThunk(t) if t.kani_same(&lt[first])), "the lhs field of that name, evaluated first");
    }
    core::mem::forget(r);
    core::mem::forget(ev);
    core::mem::forget(program);
    core::mem::forget((lhs, rhs, lt, rt, env));
}

/// EqualsObject with 0, 1 or 2 remaining fields and ANY verdict of the field just compared.
fn equals_object_step_case() {
    let arena = Arena::new();
    let mut program = bare_program(&arena);
    program.max_stack = 0;
    let a = program.str_interner.intern(&arena, "a");
    let b = program.str_interner.intern(&arena, "b");
    let c = program.str_interner.intern(&arena, "c");
    let env = GcView::kani_unmanaged(ThunkEnv::new());
    let lt: [GcView<ThunkData<'_>>; 3] = core::array::from_fn(|_| pending_thunk(&arena, &env));
    let rt: [GcView<ThunkData<'_>>; 3] = core::array::from_fn(|_| pending_thunk(&arena, &env));
    let d = ast::Visibility::Default;
    let lhs = one_layer_object([a, b, c], [d, d, d], &lt);
    let rhs = one_layer_object([a, b, c], [d, d, d], &rt);
    // rem_fields is kept reversed (popped from the end): [] | [c] | [c, b]
    let n: u8 = kani::any();
    kani::assume(n < 3);
    let mut rem: Vec<InternedStr<'_>> = Vec::with_capacity(4);
    if n >= 1 {
        rem.push(c);
    }
    if n >= 2 {
        rem.push(b);
    }
    let field_eq: bool = kani::any();
    let mut ev = bare_evaluator(&mut program);
    ev.stack_trace_len = 1;
    ev.bool_stack.push(field_eq);
    ev.state_stack.push(State::EqualsObject { lhs: lhs.clone(), rhs: rhs.clone(), rem_fields: rem });
    let r = ev.run();
    assert!(is_stack_overflow(&r), "the step ran");
    if n == 0 {
        assert!(ev.bool_stack.len() == 1 && ev.bool_stack[0] == field_eq, "last field: its verdict is the verdict");
        assert!(ev.state_stack.is_empty());
        kani::cover!(field_eq, "all fields equal");
    } else if !field_eq {
        assert!(ev.bool_stack.len() == 1 && !ev.bool_stack[0], "first different field decides");
        assert!(ev.state_stack.is_empty(), "later fields are not evaluated");
        kani::cover!(true, "early exit");
    } else {
        let next = if n == 2 { 1 } else { 2 }; // b, then c
        let next_name = if n == 2 { b } else { c };
        assert!(ev.bool_stack.is_empty());
        assert!(ev.state_stack.len() == 5);
        assert!(matches!(&ev.state_stack[0], State::EqualsObject { lhs: l, rhs: rr, rem_fields }
            if l.kani_same(&lhs) && rr.kani_same(&rhs) && rem_fields.len() == (n as usize) - 1 && (n == 1 || rem_fields[0] == c)));
        assert!(matches!(&ev.state_stack[1], State::TraceItem(TraceItem::CompareObjectField { name }) if *name == next_name));
        assert!(matches!(&ev.state_stack[2], State::EqualsValue));
        assert!(matches!(&ev.state_stack[3], State::DoThunk(t) if t.kani_same(&rt[next])));
        assert!(matches!(&ev.state_stack[4], State::DoThunk(t) if t.kani_same(&lt[next])));
        kani::cover!(n == 2, "two fields left");
    }
    core::mem::forget(r);
    core::mem::forget(ev);
    core::mem::forget(program);
    core::mem::forget((lhs, rhs, lt, rt, env));
}

// @harness id=c08_equals_objects props=C08,C07 tier=attempt cap=2700 unwindset=9Evaluator3run@first:1
// @desc one iteration of the real Evaluator::run per case. EqualsValue on the objects {a, b} and {a, b, c} (c visible and b of ANY visibility on the right; c hidden and b of ANY visibility on both sides): the objects can only be equal if their sets of VISIBLE field names are the same (hidden fields do not count; the same number of visible fields is not enough); then the comparison starts with the smallest visible name (lhs field evaluated first) and keeps the remaining names in order; no visible fields at all is equal at once. EqualsObject with 0, 1 or 2 fields left and ANY verdict of the field just compared: the last field's verdict is the verdict, a different field decides at once (later fields are never evaluated), an equal field schedules exactly the next name
// @bound one loop iteration per case; one-layer objects of 2 and 3 fields; get_fields_order is stubbed by 'return the cached list' (the harness objects carry it; computing it is C07's subject)
// @funcs Evaluator::run (arms State::EqualsValue, State::EqualsObject), ObjectData::get_visible_fields_order, Program::find_object_field_thunk, ObjectData::find_field
// @out objects with inheritance (the layer semantics are C07's subject); object asserts
run_stubs_all! {
#[kani::proof]
#[kani::unwind(6)]
#[kani::stub(crate::program::data::ObjectData::get_fields_order, crate::program::data::ObjectData::kstub_get_fields_order_cached)]
fn c08_equals_objects() {
    // c visible on the rhs only: never equal, whatever b's visibility on the rhs is (with b hidden there the two sides
    // have the same NUMBER of visible fields)
    equals_objects_start_case([0, 0], [0, -1, 0]);
    // c hidden: equal field sets exactly when b is visible on both sides or on neither
    equals_objects_start_case([0, -1], [0, -1, 1]);
    kani::cover!(true, "start cases");
    equals_object_step_case();
}
}

// @harness id=c08_equals_objects_hidden props=C08,C07 tier=attempt cap=1500 unwindset=9Evaluator3run@first:1
// @desc one iteration of the real Evaluator::run on EqualsValue over {a, b} and {a, b::, c} (b hidden on the right, so both sides have two VISIBLE fields but different visible names): false at once, no field is evaluated - a hidden field on one side never stands in for a visible field of the other
// @bound one loop iteration; one-layer objects; get_fields_order stubbed by 'return the cached list'
// @funcs Evaluator::run (arm State::EqualsValue), ObjectData::get_visible_fields_order
run_stubs_all! {
#[kani::proof]
#[kani::unwind(6)]
#[kani::stub(crate::program::data::ObjectData::get_fields_order, crate::program::data::ObjectData::kstub_get_fields_order_cached)]
fn c08_equals_objects_hidden() {
    equals_objects_start_case([0, 0], [0, 1, 0]);
    kani::cover!(true, "same count, different names");
}
}
