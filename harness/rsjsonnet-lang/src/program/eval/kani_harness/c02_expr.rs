//! C02 / C04 / C08 / C09: one real call of `Evaluator::do_expr` per case - how each kind of expression is turned
//! into scheduled work. This is where the language's evaluation ORDER, its laziness (which sub-expressions become
//! delayed thunks and which are scheduled), lexical scoping at run time (which environment a closure, a local or a
//! delayed element captures) and the lowering of the comparison operators are decided.
//!
//! The expression trees are built by the harness (concrete shape, symbolic operator where the lowering is the
//! subject); `do_expr` is called directly, so no state is popped and no stub of `run()` is needed.
use super::*;

fn a_span<'p>(program: &mut Program<'p>) -> SpanId {
    let ctx = crate::span::SpanContextId::kani_zero();
    program.span_mgr.intern_span(ctx, 0, 0)
}

fn env_with<'p>(parent: Option<&GcView<ThunkEnv<'p>>>, vars: &[(InternedStr<'p>, &GcView<ThunkData<'p>>)]) -> GcView<ThunkEnv<'p>> {
    let env = GcView::kani_unmanaged(ThunkEnv::new());
    let mut data = ThunkEnvData::new(parent.map(Gc::from));
    let mut i = 0;
    while i < vars.len() {
        data.set_var(vars[i].0, Gc::from(vars[i].1));
        i += 1;
    }
    env.set_data(data);
    env
}

fn is_expr_state<'p>(s: &State<'_, 'p>, want: &'p ir::Expr<'p>, env: &GcView<ThunkEnv<'p>>) -> bool {
    matches!(s, State::Expr { expr, env: e } if core::ptr::eq(*expr, want) && e.kani_same(env))
}

// ---------------------------------------------------------------------------------------------------
// C08: lowering of the comparison operators
// ---------------------------------------------------------------------------------------------------

// @harness id=c08_operator_lowering props=C08,C02:thorough tier=quick cap=1200
// @desc one real call of Evaluator::do_expr on `l OP r` with OP ANY of < <= > >= == !=: the operands are scheduled lhs first, then rhs, in the same environment; then CompareValue for the four ordering operators and EqualsValue for == and !=; then exactly the conversion that belongs to the operator (IsLt for <, IsLe for <=, IsGt for >, IsGe for >=; BoolToValue for ==, InvertBool then BoolToValue for !=), all inside one counted Expr frame. So `a <= b` is never lowered as `a >= b`, `!=` is exactly the negation of `==`, and both operators use the same comparison of the same operands
// @bound the six comparison operators (symbolic); operands are opaque expressions
// @funcs Evaluator::do_expr (arm ir::Expr::Binary)
eval_stubs! {
#[kani::proof]
#[kani::unwind(6)]
fn c08_operator_lowering() {
    let arena = Arena::new();
    let mut program = bare_program(&arena);
    let span = a_span(&mut program);
    let env = env_with(None, &[]);
    let lhs: &ir::Expr<'_> = arena.alloc(ir::Expr::Null);
    let rhs: &ir::Expr<'_> = arena.alloc(ir::Expr::Null);
    let k: u8 = kani::any();
    kani::assume(k < 6);
    let op = match k {
        0 => ast::BinaryOp::Lt,
        1 => ast::BinaryOp::Le,
        2 => ast::BinaryOp::Gt,
        3 => ast::BinaryOp::Ge,
        4 => ast::BinaryOp::Eq,
        _ => ast::BinaryOp::Ne,
    };
    let e: &ir::Expr<'_> = arena.alloc(ir::Expr::Binary { op, lhs, rhs, span });
    let mut ev = bare_evaluator(&mut program);
    ev.stack_trace_len = 0;
    let r = ev.do_expr(e, env.clone());
    assert!(r.is_ok());
    assert!(ev.value_stack.is_empty(), "nothing is evaluated yet");
    assert!(ev.stack_trace_len == 1, "a comparison is a counted frame");
    let n = ev.state_stack.len();
    assert!(n == if k == 5 { 6 } else { 5 });
    assert!(matches!(&ev.state_stack[0], State::TraceItem(TraceItem::Expr { .. })));
    assert!(is_expr_state(&ev.state_stack[n - 1], lhs, &env), "lhs is evaluated first");
    assert!(is_expr_state(&ev.state_stack[n - 2], rhs, &env), "then rhs");
    if k < 4 {
        assert!(matches!(&ev.state_stack[2], State::CompareValue), "ordering operators compare");
        let conv_ok = match k {
            0 => matches!(&ev.state_stack[1], State::CmpOrdToBoolValueIsLt),
            1 => matches!(&ev.state_stack[1], State::CmpOrdToBoolValueIsLe),
            2 => matches!(&ev.state_stack[1], State::CmpOrdToBoolValueIsGt),
            _ => matches!(&ev.state_stack[1], State::CmpOrdToBoolValueIsGe),
        };
        assert!(conv_ok, "the conversion is the operator's own");
    } else if k == 4 {
        assert!(matches!(&ev.state_stack[2], State::EqualsValue) && matches!(&ev.state_stack[1], State::BoolToValue), "== is the equality verdict");
    } else {
        assert!(matches!(&ev.state_stack[3], State::EqualsValue) && matches!(&ev.state_stack[2], State::InvertBool) && matches!(&ev.state_stack[1], State::BoolToValue),
                "!= is the negated equality verdict");
    }
    kani::cover!(k == 1, "<=");
    kani::cover!(k == 5, "!=");
    core::mem::forget(r);
    core::mem::forget(ev);
    core::mem::forget(program);
    core::mem::forget(env);
}
}

// ---------------------------------------------------------------------------------------------------
// C02 / C04: evaluation order and what is delayed
// ---------------------------------------------------------------------------------------------------

/// which: 0 `l + r` (any non-comparison, non-logic operator), 1 `l && r`, 2 `l || r`, 3 `o[i]`, 4 `if c then t else e`,
/// 5 `assert c : m; inner`, 6 `error m`, 7 `f(..)`, 8 unary `-r`
fn order_case(which: u8) {
    let arena = Arena::new();
    let mut program = bare_program(&arena);
    let span = a_span(&mut program);
    let env = env_with(None, &[]);
    let a: &ir::Expr<'_> = arena.alloc(ir::Expr::Null);
    let b: &ir::Expr<'_> = arena.alloc(ir::Expr::Null);
    let c: &ir::Expr<'_> = arena.alloc(ir::Expr::Null);
    let e: &ir::Expr<'_> = match which {
        0 => arena.alloc(ir::Expr::Binary { op: ast::BinaryOp::Add, lhs: a, rhs: b, span }),
        1 => arena.alloc(ir::Expr::Binary { op: ast::BinaryOp::LogicAnd, lhs: a, rhs: b, span }),
        2 => arena.alloc(ir::Expr::Binary { op: ast::BinaryOp::LogicOr, lhs: a, rhs: b, span }),
        3 => arena.alloc(ir::Expr::Index { object: a, index: b, expr_span: span }),
        4 => arena.alloc(ir::Expr::If { cond: a, cond_span: span, then_body: b, else_body: Some(c) }),
        5 => arena.alloc(ir::Expr::Assert { assert: ir::Assert { span, cond: a, cond_span: span, msg: Some(b) }, inner: c }),
        6 => arena.alloc(ir::Expr::Error { msg: a, span }),
        7 => arena.alloc(ir::Expr::Call { callee: a, positional_args: arena.alloc_slice(&[b]), named_args: &[], tailstrict: false, span }),
        _ => arena.alloc(ir::Expr::Unary { op: ast::UnaryOp::Minus, rhs: a, span }),
    };
    let mut ev = bare_evaluator(&mut program);
    ev.stack_trace_len = 0;
    let r = ev.do_expr(e, env.clone());
    assert!(r.is_ok());
    assert!(ev.value_stack.is_empty(), "do_expr only schedules");
    let n = ev.state_stack.len();
    let top = &ev.state_stack[n - 1];
    match which {
        0 => {
            assert!(n == 3 && is_expr_state(top, a, &env) && is_expr_state(&ev.state_stack[1], b, &env), "lhs, then rhs");
            assert!(matches!(&ev.state_stack[0], State::BinaryOp { op: ast::BinaryOp::Add, .. }), "then the operator");
        }
        1 => {
            assert!(n == 2 && is_expr_state(top, a, &env), "only the LEFT operand of && is scheduled");
            assert!(matches!(&ev.state_stack[0], State::LogicAnd { rhs, env: e2, .. } if core::ptr::eq(*rhs, b) && e2.kani_same(&env)), "the right one is kept unevaluated for the short-circuit step");
        }
        2 => {
            assert!(n == 2 && is_expr_state(top, a, &env), "only the LEFT operand of || is scheduled");
            assert!(matches!(&ev.state_stack[0], State::LogicOr { rhs, env: e2, .. } if core::ptr::eq(*rhs, b) && e2.kani_same(&env)));
        }
        3 => {
            assert!(n == 3 && is_expr_state(top, a, &env) && is_expr_state(&ev.state_stack[1], b, &env), "the indexed value, then the index");
            assert!(matches!(&ev.state_stack[0], State::Index { .. }));
        }
        4 => {
            assert!(n == 2 && is_expr_state(top, a, &env), "only the condition is scheduled");
            assert!(matches!(&ev.state_stack[0], State::If { then_body, else_body: Some(eb), env: e2, .. }
                if core::ptr::eq(*then_body, b) && core::ptr::eq(*eb, c) && e2.kani_same(&env)), "both branches are kept unevaluated");
        }
        5 => {
            assert!(n == 3 && is_expr_state(top, a, &env), "the condition first");
            assert!(matches!(&ev.state_stack[1], State::Assert { msg_expr: Some((m, e2)), .. } if core::ptr::eq(*m, b) && e2.kani_same(&env)), "then the check (message unevaluated)");
            assert!(is_expr_state(&ev.state_stack[0], c, &env), "the body only after the assertion");
        }
        6 => {
            // Error{span}, TraceItem, CoerceToString, DelayedTraceItem, Expr(msg)
            assert!(n == 5 && is_expr_state(top, a, &env), "the message is evaluated");
            assert!(matches!(&ev.state_stack[3], State::DelayedTraceItem) && matches!(&ev.state_stack[2], State::CoerceToString)
                && matches!(&ev.state_stack[1], State::TraceItem(TraceItem::Expr { .. })) && matches!(&ev.state_stack[0], State::Error { .. }),
                "converted to a string inside a counted frame, then raised");
            assert!(ev.stack_trace_len == 0, "the frame is suspended while the message itself is evaluated");
        }
        7 => {
            assert!(n == 2 && is_expr_state(top, a, &env), "the callee first; arguments are NOT scheduled");
            assert!(matches!(&ev.state_stack[0], State::CallWithExpr { call_expr, call_env } if core::ptr::eq(*call_expr, e) && call_env.kani_same(&env)));
        }
        _ => {
            assert!(n == 2 && is_expr_state(top, a, &env));
            assert!(matches!(&ev.state_stack[0], State::UnaryOp { op: ast::UnaryOp::Minus, .. }));
        }
    }
    core::mem::forget(r);
    core::mem::forget(ev);
    core::mem::forget(program);
    core::mem::forget(env);
}

// @harness id=c02_expr_order_ops props=C02,C04 tier=quick cap=1200
// @desc one real call of Evaluator::do_expr per case: `l + r` schedules l, then r, then the operator; `l && r` and `l || r` schedule ONLY l and keep r unevaluated for the short-circuit step; `o[i]` schedules o then i; unary minus schedules its operand then the operator
// @bound 5 expression shapes with opaque operands
// @funcs Evaluator::do_expr (arms Binary, Index, Unary)
eval_stubs! {
#[kani::proof]
#[kani::unwind(6)]
fn c02_expr_order_ops() {
    order_case(0);
    order_case(1);
    order_case(2);
    order_case(3);
    order_case(8);
    kani::cover!(true, "all shapes");
}
}

// @harness id=c02_expr_order_control props=C02,C04 tier=quick cap=1200
// @desc one real call of Evaluator::do_expr per case: `if c then t else e` schedules only c and keeps both branches unevaluated; `assert c : m; body` schedules c, then the check (message unevaluated), and the body only after it; `error m` evaluates m, converts it to a string inside a counted frame and raises; a call schedules only the callee - the arguments are not evaluated
// @bound 4 expression shapes with opaque operands
// @funcs Evaluator::do_expr (arms If, Assert, Error, Call)
eval_stubs! {
#[kani::proof]
#[kani::unwind(6)]
fn c02_expr_order_control() {
    order_case(4);
    order_case(5);
    order_case(6);
    order_case(7);
    kani::cover!(true, "all shapes");
}
}

// ---------------------------------------------------------------------------------------------------
// C02 / C09 / C04: scoping at run time
// ---------------------------------------------------------------------------------------------------

// @harness id=c02_expr_local_letrec props=C02,C04,C09 tier=thorough cap=2700
// @desc one real call of Evaluator::do_expr on `local x = <e1>, y = <e2>; body` inside an environment that already binds x: nothing is evaluated (both bindings become delayed thunks); the body is scheduled in a NEW environment in which x and y are the new thunks (the outer x is shadowed) and whose parent is the old one; and each binding's own expression is delayed IN THAT NEW environment, so bindings of one local can refer to each other and to themselves (letrec)
// @bound two bindings whose right-hand sides are variables (so that they are genuinely delayed), one shadowed outer binding
// @funcs Evaluator::do_expr (arm ir::Expr::Local), Program::new_pending_expr_thunk, ThunkEnv::get_var
eval_stubs! {
#[kani::proof]
#[kani::unwind(6)]
fn c02_expr_local_letrec() {
    let arena = Arena::new();
    let mut program = bare_program(&arena);
    let span = a_span(&mut program);
    let x = program.str_interner.intern(&arena, "x");
    let y = program.str_interner.intern(&arena, "y");
    let z = program.str_interner.intern(&arena, "z");
    let outer_x = done_thunk(ValueData::Number(1.0));
    let outer_z = done_thunk(ValueData::Number(2.0));
    let env = env_with(None, &[(x, &outer_x), (z, &outer_z)]);
    let e1: &ir::Expr<'_> = arena.alloc(ir::Expr::Var(y, span));
    let e2: &ir::Expr<'_> = arena.alloc(ir::Expr::Var(x, span));
    let body: &ir::Expr<'_> = arena.alloc(ir::Expr::Null);
    let e: &ir::Expr<'_> = arena.alloc(ir::Expr::Local { bindings: arena.alloc_slice(&[(x, e1), (y, e2)]), inner: body });
    let mut ev = bare_evaluator(&mut program);
    let r = ev.do_expr(e, env.clone());
    assert!(r.is_ok());
    assert!(ev.value_stack.is_empty(), "no binding is evaluated");
    assert!(ev.state_stack.len() == 1);
    let State::Expr { expr: got_body, env: new_env } = &ev.state_stack[0] else { panic!("the body is scheduled") };
    assert!(core::ptr::eq(*got_body, body));
    assert!(!new_env.kani_same(&env), "in a new environment");
    let tx = new_env.get_var(x).view();
    let ty = new_env.get_var(y).view();
    let tz = new_env.get_var(z).view();
    assert!(!tx.kani_same(&outer_x), "the new x shadows the outer x");
    assert!(tz.kani_same(&outer_z), "outer bindings stay visible through the parent");
    let x_ok = matches!(&*tx.state(), ThunkState::Pending(PendingThunk::Expr { expr, env: te }) if core::ptr::eq(*expr, e1) && te.kani_points_to(new_env));
    let y_ok = matches!(&*ty.state(), ThunkState::Pending(PendingThunk::Expr { expr, env: te }) if core::ptr::eq(*expr, e2) && te.kani_points_to(new_env));
    assert!(x_ok && y_ok, "each right-hand side is delayed in the NEW environment (mutual recursion)");
    kani::cover!(true, "local");
    core::mem::forget((tx, ty, tz));
    core::mem::forget(r);
    core::mem::forget(ev);
    core::mem::forget(program);
    core::mem::forget((env, outer_x, outer_z));
}
}

/// which: 0 = variable bound in the innermost environment (shadowing an outer one), evaluated; 1 = variable found
/// only in the grandparent, still pending
fn var_case(which: u8) {
    let arena = Arena::new();
    let mut program = bare_program(&arena);
    let span = a_span(&mut program);
    let x = program.str_interner.intern(&arena, "x");
    let y = program.str_interner.intern(&arena, "y");
    let v_in = any_finite();
    let inner_x = done_thunk(ValueData::Number(v_in));
    let outer_x = done_thunk(ValueData::Number(any_finite()));
    let null_expr: &ir::Expr<'_> = arena.alloc(ir::Expr::Null);
    let dummy_env = GcView::kani_unmanaged(ThunkEnv::new());
    let outer_y = GcView::kani_unmanaged(ThunkData::new_pending_expr(null_expr, Gc::from(&dummy_env)));
    let g = env_with(None, &[(x, &outer_x), (y, &outer_y)]);
    let p = env_with(Some(&g), &[]);
    let env = env_with(Some(&p), &[(x, &inner_x)]);
    let e: &ir::Expr<'_> = arena.alloc(ir::Expr::Var(if which == 0 { x } else { y }, span));
    let mut ev = bare_evaluator(&mut program);
    ev.stack_trace_len = 0;
    let r = ev.do_expr(e, env.clone());
    assert!(r.is_ok());
    if which == 0 {
        assert!(ev.state_stack.is_empty());
        assert!(ev.value_stack.len() == 1 && matches!(&ev.value_stack[0], ValueData::Number(v) if v.to_bits() == v_in.to_bits()),
                "the innermost binding of the name is used (lexical scoping), and an evaluated variable is not re-evaluated");
    } else {
        assert!(ev.value_stack.is_empty());
        assert!(ev.state_stack.len() == 2 && matches!(&ev.state_stack[0], State::TraceItem(TraceItem::Variable { name, .. }) if *name == y));
        assert!(matches!(&ev.state_stack[1], State::DoThunk(t) if t.kani_same(&outer_y)), "a name not bound locally is found in an enclosing environment; its thunk is forced inside a counted frame");
        assert!(ev.stack_trace_len == 1);
    }
    core::mem::forget(r);
    core::mem::forget(ev);
    core::mem::forget(program);
    core::mem::forget((env, p, g, inner_x, outer_x, outer_y, dummy_env));
}

// @harness id=c02_expr_var_lookup props=C02,C09,C04 tier=thorough cap=1500
// @desc one real call of Evaluator::do_expr on a variable reference per case, in a chain of three environments: a name bound in the innermost environment and in the outermost one resolves to the INNERMOST binding and, being evaluated already, yields its value without re-evaluation; a name bound only in the outermost environment is found there and its pending thunk is forced inside a counted Variable frame
// @bound environment chains of depth 3; values = arbitrary finite numbers
// @funcs Evaluator::do_expr (arm ir::Expr::Var), ThunkEnv::get_var, Evaluator::want_thunk_direct
eval_stubs! {
#[kani::proof]
#[kani::unwind(6)]
fn c02_expr_var_lookup() {
    var_case(0);
    kani::cover!(true, "shadowing");
    var_case(1);
    kani::cover!(true, "outer variable");
}
}

// @harness id=c02_expr_closure_and_call props=C02,C09,C04 tier=attempt cap=2700 mem=40
// @desc Evaluator::do_expr on `function(a, b) body` yields a function value that captures the environment of its DEFINITION; Evaluator::execute_normal_call on it with two argument thunks schedules the body in a new environment whose parent is the captured one (not the caller's), in which a and b are exactly the argument thunks, unevaluated: static scoping and call-by-need
// @bound a two-parameter function, two pending argument thunks
// @funcs Evaluator::do_expr (arm ir::Expr::Func), Evaluator::execute_normal_call, FuncData::new, ThunkEnv::get_var
eval_stubs! {
#[kani::proof]
#[kani::unwind(6)]
fn c02_expr_closure_and_call() {
    let arena = Arena::new();
    let mut program = bare_program(&arena);
    let a = program.str_interner.intern(&arena, "a");
    let b = program.str_interner.intern(&arena, "b");
    let z = program.str_interner.intern(&arena, "z");
    let def_z = done_thunk(ValueData::Number(7.0));
    let def_env = env_with(None, &[(z, &def_z)]);
    let body: &ir::Expr<'_> = arena.alloc(ir::Expr::Null);
    let params: &[(InternedStr<'_>, Option<&ir::Expr<'_>>)] = arena.alloc_slice(&[(a, None), (b, None)]);
    let fexpr: &ir::Expr<'_> = arena.alloc(ir::Expr::Func { params, body });
    let null_expr: &ir::Expr<'_> = arena.alloc(ir::Expr::Null);
    let arg0 = GcView::kani_unmanaged(ThunkData::new_pending_expr(null_expr, Gc::from(&def_env)));
    let arg1 = GcView::kani_unmanaged(ThunkData::new_pending_expr(null_expr, Gc::from(&def_env)));
    let mut ev = bare_evaluator(&mut program);
    let r = ev.do_expr(fexpr, def_env.clone());
    assert!(r.is_ok() && ev.state_stack.is_empty() && ev.value_stack.len() == 1, "a function literal is a value");
    let Some(ValueData::Function(f)) = ev.value_stack.last() else { panic!("function value") };
    let f = f.view();
    let captured_ok = matches!(&f.kind, FuncKind::Normal { body: bd, env, .. } if core::ptr::eq(*bd, body) && env.kani_points_to(&def_env));
    assert!(captured_ok, "the closure captures the environment of its definition");
    let FuncKind::Normal { env: cap_env, .. } = &f.kind else { panic!() };
    let args: Box<[Gc<ThunkData<'_>>]> = vec![Gc::from(&arg0), Gc::from(&arg1)].into_boxed_slice();
    ev.execute_normal_call(&f.params, body, cap_env.clone(), args);
    assert!(ev.state_stack.len() == 1);
    let State::Expr { expr: got_body, env: call_env } = &ev.state_stack[0] else { panic!("the body is scheduled") };
    assert!(core::ptr::eq(*got_body, body));
    let ta = call_env.get_var(a).view();
    let tb = call_env.get_var(b).view();
    let tz = call_env.get_var(z).view();
    assert!(ta.kani_same(&arg0) && tb.kani_same(&arg1), "parameters are bound to the argument thunks in order");
    assert!(matches!(&*ta.state(), ThunkState::Pending(_)) && matches!(&*tb.state(), ThunkState::Pending(_)), "arguments are passed unevaluated");
    assert!(tz.kani_same(&def_z), "free variables of the body resolve in the DEFINITION environment");
    kani::cover!(true, "closure called");
    core::mem::forget((ta, tb, tz, f));
    core::mem::forget(r);
    core::mem::forget(ev);
    core::mem::forget(program);
    core::mem::forget((def_env, def_z, arg0, arg1));
}
}

// @harness id=c04_expr_array_is_lazy props=C04,C02 tier=thorough cap=2400
// @desc one real call of Evaluator::do_expr on the array literal `[v, w]` (v, w variables): the result is an array value of two thunks, each delaying its own element expression in the current environment; nothing is evaluated and nothing is scheduled. The empty literal `[]` is the shared empty array
// @bound arrays of 0 and 2 elements
// @funcs Evaluator::do_expr (arm ir::Expr::Array), Program::new_pending_expr_thunk
eval_stubs! {
#[kani::proof]
#[kani::unwind(6)]
fn c04_expr_array_is_lazy() {
    let arena = Arena::new();
    let mut program = bare_program(&arena);
    let span = a_span(&mut program);
    let v = program.str_interner.intern(&arena, "v");
    let w = program.str_interner.intern(&arena, "w");
    let env = env_with(None, &[]);
    let e1: &ir::Expr<'_> = arena.alloc(ir::Expr::Var(v, span));
    let e2: &ir::Expr<'_> = arena.alloc(ir::Expr::Var(w, span));
    let arr: &ir::Expr<'_> = arena.alloc(ir::Expr::Array(arena.alloc_slice(&[e1, e2])));
    let empty: &ir::Expr<'_> = arena.alloc(ir::Expr::Array(&[]));
    let mut ev = bare_evaluator(&mut program);
    let r = ev.do_expr(arr, env.clone());
    assert!(r.is_ok() && ev.state_stack.is_empty() && ev.value_stack.len() == 1, "an array literal is a value at once");
    let Some(ValueData::Array(items)) = ev.value_stack.last() else { panic!("array value") };
    let items = items.view();
    assert!(items.len() == 2);
    let t0 = items[0].view();
    let t1 = items[1].view();
    let ok0 = matches!(&*t0.state(), ThunkState::Pending(PendingThunk::Expr { expr, env: te }) if core::ptr::eq(*expr, e1) && te.kani_points_to(&env));
    let ok1 = matches!(&*t1.state(), ThunkState::Pending(PendingThunk::Expr { expr, env: te }) if core::ptr::eq(*expr, e2) && te.kani_points_to(&env));
    assert!(ok0 && ok1, "each element is delayed, in order, in the current environment");
    let r2 = ev.do_expr(empty, env.clone());
    assert!(r2.is_ok() && ev.value_stack.len() == 2);
    assert!(matches!(&ev.value_stack[1], ValueData::Array(a) if a.kani_points_to(&ev.program.empty_array)), "[] is the shared empty array");
    kani::cover!(true, "array literal");
    core::mem::forget((t0, t1, items));
    core::mem::forget((r, r2));
    core::mem::forget(ev);
    core::mem::forget(program);
    core::mem::forget(env);
}
}

// @harness id=c02_expr_must_fail props=C02 tier=thorough cap=900 expect=fail
// @desc vacuity twin of the do_expr harnesses
eval_stubs! {
#[kani::proof]
#[kani::unwind(6)]
fn c02_expr_must_fail() {
    order_case(0);
    assert!(false, "reachability witness");
}
}

// ---------------------------------------------------------------------------------------------------
// C04 / C02: one environment per object layer, shared by fields, computed field names and asserts
// ---------------------------------------------------------------------------------------------------

// @harness id=c04_expr_object_fields_share_env props=C04,C02 tier=attempt cap=1200
// @desc one real call of Evaluator::do_expr on the object literal `{ f: v, [k]: w }`: a new object layer is opened whose base environment is the current one, and BOTH fields - the fixed one and the one with a computed name - are scheduled without an environment of their own (base_env = None), i.e. they will use the layer's single environment, so an object local used by several members is evaluated once; the computed name itself is evaluated in the enclosing environment; fields are added in source order
// @bound one fixed-name and one computed-name field
// @funcs Evaluator::do_expr (arm ir::Expr::Object)
eval_stubs! {
#[kani::proof]
#[kani::unwind(6)]
fn c04_expr_object_fields_share_env() {
    let arena = Arena::new();
    let mut program = bare_program(&arena);
    let span = a_span(&mut program);
    let f = program.str_interner.intern(&arena, "f");
    let env = env_with(None, &[]);
    let v: &ir::Expr<'_> = arena.alloc(ir::Expr::Null);
    let w: &ir::Expr<'_> = arena.alloc(ir::Expr::Null);
    let k: &ir::Expr<'_> = arena.alloc(ir::Expr::String("g"));
    let fields: &[ir::ObjectField<'_>] = arena.alloc_slice(&[
        ir::ObjectField { name: ir::FieldName::Fix(f), name_span: span, plus: false, visibility: ast::Visibility::Default, value: v },
        ir::ObjectField { name: ir::FieldName::Dyn(k), name_span: span, plus: false, visibility: ast::Visibility::Hidden, value: w },
    ]);
    let e: &ir::Expr<'_> = arena.alloc(ir::Expr::Object { is_top: true, locals: &[], asserts: &[], fields });
    let mut ev = bare_evaluator(&mut program);
    let r = ev.do_expr(e, env.clone());
    assert!(r.is_ok() && ev.value_stack.is_empty());
    assert!(ev.object_stack.len() == 1, "a new object is under construction");
    let layer = &ev.object_stack[0].self_layer;
    assert!(matches!(&layer.base_env, Some(b) if b.kani_points_to(&env)), "its layer environment derives from the current environment");
    assert!(layer.env.get().is_none(), "and is not created before it is needed");
    // executed from the top: f (fixed), then the name expression of the second field, then the computed field, then the finish
    assert!(ev.state_stack.len() == 4);
    assert!(matches!(&ev.state_stack[0], State::ObjectToValue));
    assert!(matches!(&ev.state_stack[3], State::ObjectFixField { name, base_env: None, value, visibility: ast::Visibility::Default, plus: false, .. }
        if *name == f && core::ptr::eq(*value, v)), "the fixed field first, without a private environment");
    assert!(is_expr_state(&ev.state_stack[2], k, &env), "the computed name is evaluated in the ENCLOSING environment");
    assert!(matches!(&ev.state_stack[1], State::ObjectDynField { base_env: None, value, visibility: ast::Visibility::Hidden, plus: false, .. }
        if core::ptr::eq(*value, w)), "the computed field also without a private environment");
    kani::cover!(true, "object literal");
    core::mem::forget(r);
    core::mem::forget(ev);
    core::mem::forget(program);
    core::mem::forget(env);
}
}

// @harness id=c04_object_assert_env_shared props=C04,C02 tier=quick cap=2400
// @desc Program::get_object_assert_env and Program::find_object_field_thunk on a fresh one-layer object with one delayed field: the environment an object assert is evaluated in IS the environment of the layer's fields (the same object, whichever is asked for first), so that an object local used by an assert and by a field is evaluated once
// @bound a one-layer object with one field whose value is a variable reference
// @funcs Program::get_object_assert_env, Program::find_object_field_thunk, Program::get_object_layer_env, Program::init_object_env
eval_stubs! {
#[kani::proof]
#[kani::unwind(6)]
fn c04_object_assert_env_shared() {
    let arena = Arena::new();
    let mut program = bare_program(&arena);
    let span = a_span(&mut program);
    let f = program.str_interner.intern(&arena, "f");
    let x = program.str_interner.intern(&arena, "x");
    let env = env_with(None, &[]);
    let fexpr: &ir::Expr<'_> = arena.alloc(ir::Expr::Var(x, span));
    let mut slots: [Option<(InternedStr<'_>, ObjectField<'_>)>; 4] = [None, None, None, None];
    slots[0] = Some((f, ObjectField::Normal(ObjectFieldData { base_env: None, visibility: ast::Visibility::Default, expr: Some((fexpr, false)), thunk: OnceCell::new() })));
    let obj: GcView<ObjectData<'_>> = GcView::kani_unmanaged(ObjectData {
        self_layer: ObjectLayer { is_top: true, locals: &[], base_env: Some(Gc::from(&env)), env: OnceCell::new(), fields: FHashMap::kani_from_slots(slots), asserts: &[] },
        super_layers: Vec::new(),
        fields_order: OnceCell::new(),
        asserts_checked: Cell::new(false),
    });
    let assert_first: bool = kani::any();
    let (aenv, fthunk) = if assert_first {
        let a = program.get_object_assert_env(&obj, 0, 0);
        let t = program.find_object_field_thunk(&obj, 0, f).unwrap();
        (a, t)
    } else {
        let t = program.find_object_field_thunk(&obj, 0, f).unwrap();
        let a = program.get_object_assert_env(&obj, 0, 0);
        (a, t)
    };
    let same = matches!(&*fthunk.state(), ThunkState::Pending(PendingThunk::Expr { env: te, .. }) if te.kani_points_to(&aenv));
    assert!(same, "asserts and fields of a layer share one environment");
    kani::cover!(assert_first, "assert environment requested first");
    kani::cover!(!assert_first, "field requested first");
    core::mem::forget((aenv, fthunk));
    core::mem::forget(program);
    core::mem::forget((obj, env));
}
}
