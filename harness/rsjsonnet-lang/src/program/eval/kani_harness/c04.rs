//! C04: the thunk protocol that makes evaluation call-by-need.
use super::*;

fn any_env<'p>() -> GcView<ThunkEnv<'p>> {
    GcView::kani_unmanaged(ThunkEnv::new())
}

// @harness id=c04_thunk_state_machine props=C04 tier=quick cap=900
// @desc ThunkData::{switch_state,set_done,get_value} from each state: Done(v) is absorbing and always yields v; a Pending thunk hands out its payload exactly once and is InProgress afterwards (a second request sees InProgress, which the evaluator reports as infinite recursion); set_done turns InProgress into Done(v); get_value is Some only when Done. Hence a delayed expression is evaluated at most once however often it is demanded
// @bound the three thunk states, payload = pending expression thunk, value = arbitrary finite number
// @funcs ThunkData::switch_state, ThunkData::set_done, ThunkData::get_value, ThunkData::new_done, ThunkData::new_pending_expr
eval_stubs! {
#[kani::proof]
#[kani::unwind(3)]
fn c04_thunk_state_machine() {
    let arena = Arena::new();
    let v = any_finite();
    let env = any_env();
    let null_expr: &ir::Expr<'_> = arena.alloc(ir::Expr::Null);
    let start_done: bool = kani::any();
    let thunk = if start_done {
        ThunkData::new_done(ValueData::Number(v))
    } else {
        ThunkData::new_pending_expr(null_expr, Gc::from(&env))
    };
    if start_done {
        let s1 = thunk.switch_state();
        assert!(matches!(&s1, ThunkState::Done(ValueData::Number(x)) if *x == v), "Done yields its value");
        let s2 = thunk.switch_state();
        assert!(matches!(&s2, ThunkState::Done(ValueData::Number(x)) if *x == v), "Done is absorbing");
        assert!(matches!(thunk.get_value(), Some(ValueData::Number(x)) if x == v), "get_value of Done");
        kani::cover!(true, "done thunk");
        core::mem::forget((s1, s2));
    } else {
        assert!(thunk.get_value().is_none(), "a pending thunk has no value");
        let s1 = thunk.switch_state();
        assert!(matches!(&s1, ThunkState::Pending(PendingThunk::Expr { .. })), "first demand receives the payload");
        assert!(matches!(&*thunk.state(), ThunkState::InProgress), "and leaves the thunk in progress");
        let s2 = thunk.switch_state();
        assert!(matches!(&s2, ThunkState::InProgress), "a second demand does not receive the payload again");
        assert!(thunk.get_value().is_none(), "no value while in progress");
        thunk.set_done(ValueData::Number(v));
        assert!(matches!(thunk.get_value(), Some(ValueData::Number(x)) if x == v), "set_done publishes the value");
        let s3 = thunk.switch_state();
        assert!(matches!(&s3, ThunkState::Done(ValueData::Number(x)) if *x == v), "later demands reuse the value");
        kani::cover!(true, "pending thunk forced once");
        core::mem::forget((s1, s2, s3));
    }
    core::mem::forget(thunk);
    core::mem::forget(env);
}
}

/// kind: 0 = Pending(Expr), 1 = Pending(FieldPlus), 2 = Pending(Call)
fn pending_protocol_case(kind: u8) {
    let arena = Arena::new();
    let interner = StrInterner::new();
    let v = any_finite();
    let env = any_env();
    let null_expr: &ir::Expr<'_> = arena.alloc(ir::Expr::Null);
    let func: GcView<FuncData<'_>> = GcView::kani_unmanaged(FuncData::new(&[], FuncKind::Identity { name: None }));
    let arg = GcView::kani_unmanaged(ThunkData::new_done(ValueData::Null));
    let thunk = match kind {
        0 => ThunkData::new_pending_expr(null_expr, Gc::from(&env)),
        1 => ThunkData::new_pending_field_plus(null_expr, interner.intern(&arena, "f"), Gc::from(&env)),
        _ => ThunkData::new_pending_call(Gc::from(&func), vec![Gc::from(&arg)].into_boxed_slice()),
    };
    assert!(thunk.get_value().is_none(), "a pending thunk has no value");
    let s1 = thunk.switch_state();
    let got_payload = match kind {
        0 => matches!(&s1, ThunkState::Pending(PendingThunk::Expr { .. })),
        1 => matches!(&s1, ThunkState::Pending(PendingThunk::FieldPlus { .. })),
        _ => matches!(&s1, ThunkState::Pending(PendingThunk::Call { .. })),
    };
    assert!(got_payload, "the first demand receives the payload");
    assert!(matches!(&*thunk.state(), ThunkState::InProgress), "and leaves the thunk in progress - whatever the kind of payload");
    let s2 = thunk.switch_state();
    assert!(matches!(&s2, ThunkState::InProgress), "a second demand does not receive the payload again (it is reported as infinite recursion)");
    thunk.set_done(ValueData::Number(v));
    assert!(matches!(thunk.get_value(), Some(ValueData::Number(x)) if x == v), "set_done publishes the value");
    core::mem::forget((s1, s2));
    core::mem::forget(thunk);
    core::mem::forget((env, func, arg, interner));
}

// @harness id=c04_pending_kinds_protocol props=C04,C10 tier=quick cap=900
// @desc ThunkData::switch_state for each kind of delayed computation - an expression (locals, fields, array items), a `+:` field, and a CALL thunk (the lazy elements std.makeArray / std.map / std.mapWithKey produce): the first demand receives the payload and marks the thunk InProgress, a second demand while it is being evaluated sees InProgress (never the payload again, so a self-dependent element is reported as infinite recursion instead of being re-entered), set_done publishes the value
// @bound the three payload kinds
// @funcs ThunkData::switch_state, ThunkData::set_done, ThunkData::get_value, ThunkData::new_pending_expr, ThunkData::new_pending_field_plus, ThunkData::new_pending_call
eval_stubs! {
#[kani::proof]
#[kani::unwind(6)]
fn c04_pending_kinds_protocol() {
    pending_protocol_case(0);
    kani::cover!(true, "expression thunk");
    pending_protocol_case(1);
    kani::cover!(true, "field-plus thunk");
    pending_protocol_case(2);
    kani::cover!(true, "call thunk");
}
}

// @harness id=c04_new_thunk_is_lazy props=C04,C06 tier=quick cap=1200
// @desc Program::new_pending_expr_thunk (every binding site: locals, arguments, array elements, object fields): the thunk is created already evaluated only for the literal forms null / booleans / FINITE numbers / strings / the empty array (and function literals); every other expression - a variable, an error expression, a non-finite number literal - becomes a Pending thunk holding the expression, i.e. nothing is evaluated at creation time and an overflowing literal can never become a value
// @bound one expression drawn from a menu of 8 forms, the number literal ranging over all 2^64 doubles
// @funcs Program::new_pending_expr_thunk, Program::try_value_from_expr
eval_stubs! {
#[kani::proof]
#[kani::unwind(6)]
fn c04_new_thunk_is_lazy() {
    let arena = Arena::new();
    let mut program = bare_program(&arena);
    let ctx = crate::span::SpanContextId::kani_zero();
    let span = program.span_mgr.intern_span(ctx, 0, 0);
    let x = program.str_interner.intern(&arena, "x");
    let env = any_env();
    let num: f64 = kani::any();
    let null_expr: &ir::Expr<'_> = arena.alloc(ir::Expr::Null);
    let which: u8 = kani::any();
    kani::assume(which < 8);
    let expr: &ir::Expr<'_> = match which {
        0 => arena.alloc(ir::Expr::Null),
        1 => arena.alloc(ir::Expr::Bool(kani::any())),
        2 => arena.alloc(ir::Expr::Number(num, span)),
        3 => arena.alloc(ir::Expr::String("s")),
        4 => arena.alloc(ir::Expr::Array(&[])),
        5 => arena.alloc(ir::Expr::Var(x, span)),
        6 => arena.alloc(ir::Expr::Error { msg: null_expr, span }),
        _ => arena.alloc(ir::Expr::Func { params: &[], body: null_expr }),
    };
    let thunk = program.new_pending_expr_thunk(expr, Gc::from(&env), None).view();
    let state = thunk.state();
    match which {
        0 => assert!(matches!(&*state, ThunkState::Done(ValueData::Null)), "null literal"),
        1 => assert!(matches!(&*state, ThunkState::Done(ValueData::Bool(_))), "boolean literal"),
        2 => {
            if num.is_finite() {
                assert!(matches!(&*state, ThunkState::Done(ValueData::Number(v)) if *v == num), "finite number literal");
            } else {
                assert!(matches!(&*state, ThunkState::Pending(PendingThunk::Expr { .. })), "a non-finite literal is never a value");
                kani::cover!(num.is_infinite(), "overflowing literal stays pending");
            }
        }
        3 => assert!(matches!(&*state, ThunkState::Done(ValueData::String(_))), "string literal"),
        4 => assert!(matches!(&*state, ThunkState::Done(ValueData::Array(_))), "empty array literal"),
        5 | 6 => {
            assert!(matches!(&*state, ThunkState::Pending(PendingThunk::Expr { .. })), "variables and error expressions are delayed");
            kani::cover!(which == 6, "error expression delayed");
        }
        _ => assert!(matches!(&*state, ThunkState::Done(ValueData::Function(_))), "function literal is a value"),
    }
    drop(state);
    core::mem::forget(thunk);
    core::mem::forget(env);
    core::mem::forget(program);
}
}

// @harness id=c04_must_fail props=C04 tier=quick cap=900 expect=fail
// @desc vacuity twin of the thunk harnesses
eval_stubs! {
#[kani::proof]
#[kani::unwind(3)]
fn c04_must_fail() {
    let thunk = ThunkData::new_done(ValueData::Number(any_finite()));
    let s1 = thunk.switch_state();
    core::mem::forget(s1);
    core::mem::forget(thunk);
    assert!(false, "reachability witness");
}
}
