//! C10 (frame discipline of every nesting step) and C05 (document structure of one nesting step): the manifesters
//! walk arrays and objects by pushing, per element, a child manifestation state, the thunk to force, and the frame
//! bookkeeping states. The frame limit only bounds a recursion if the CHILD state runs inside the counted frame.
//! Each harness runs one real manifester step (`do_manifest_json`, `do_manifest_yaml_doc`, `do_manifest_python`,
//! `do_manifest_toml_value`) on a one-element array or a one-field object and checks, for every child state the step
//! scheduled, the trace length at which it will run.
use super::*;
use super::c08::{one_layer_object, pending_array, pending_thunk};

fn is_child_manifest(s: &State<'_, '_>) -> bool {
    matches!(
        s,
        State::ManifestJson { .. } | State::ManifestYamlDoc { .. } | State::ManifestPython | State::ManifestTomlValue { .. } | State::ManifestTomlTable { .. }
    )
}

/// The states a step pushed are executed from the top of the vector downwards. `DelayedTraceItem` re-enters a frame
/// (+1), `TraceItem` leaves it (-1). Returns true iff every child manifestation state (and every forced thunk) the
/// step scheduled runs at trace length `len_after_step + 1`, i.e. INSIDE a counted frame of its own, and the length
/// is back to `len_after_step` once everything the step scheduled has run.
fn children_run_inside_frames(ev: &Evaluator<'_, '_>, expect_children: usize) -> bool {
    let n = ev.state_stack.len();
    let mut ok = true;
    let mut level: isize = 0; // relative to the trace length right after the step
    let mut children = 0;
    let mut k = n;
    while k > 0 {
        k -= 1;
        match &ev.state_stack[k] {
            State::DelayedTraceItem => level += 1,
            State::TraceItem(_) => level -= 1,
            State::DoThunk(_) => {
                if level != 1 {
                    ok = false;
                }
            }
            s if is_child_manifest(s) => {
                children += 1;
                if level != 1 {
                    ok = false;
                }
            }
            _ => {}
        }
        if level < 0 || level > 1 {
            ok = false;
        }
    }
    ok && level == 0 && children == expect_children
}

fn fields_object<'p>(
    arena: &'p Arena,
    program: &Program<'p>,
    env: &GcView<ThunkEnv<'p>>,
) -> (GcView<ObjectData<'p>>, [GcView<ThunkData<'p>>; 1]) {
    let a = program.str_interner.intern(arena, "a");
    let thunks: [GcView<ThunkData<'p>>; 1] = core::array::from_fn(|_| pending_thunk(arena, env));
    (one_layer_object([a], [ast::Visibility::Default], &thunks), thunks)
}

/// which: 0 json, 1 yaml, 2 python, 3 toml value (inline); object: false = one-element array, true = one-field object
fn manifest_step_case(which: u8, object: bool) {
    let arena = Arena::new();
    let mut program = bare_program(&arena);
    let env = GcView::kani_unmanaged(ThunkEnv::new());
    let (arr, _items) = pending_array::<1>(&arena, &env);
    let (obj, _fields) = fields_object(&arena, &program, &env);
    let len: usize = kani::any();
    kani::assume(len >= 1 && len < usize::MAX);
    let mut ev = bare_evaluator(&mut program);
    ev.stack_trace_len = len;
    ev.string_stack.push(String::with_capacity(64));
    ev.value_stack.push(if object { ValueData::Object(Gc::from(&obj)) } else { ValueData::Array(Gc::from(&arr)) });
    let r = match which {
        0 => ev.do_manifest_json(ManifestJsonFormat::default_to_string(), 0),
        1 => ev.do_manifest_yaml_doc(false, false, 0, false, false),
        2 => ev.do_manifest_python(),
        _ => ev.do_manifest_toml_value("  ".into(), 0, true),
    };
    assert!(r.is_ok(), "arrays and objects can be manifested");
    assert!(ev.stack_trace_len == len, "the step itself leaves the trace length unchanged (each frame it pushed is suspended again)");
    assert!(children_run_inside_frames(&ev, 1), "the element is forced and manifested INSIDE a counted frame of its own; frames are balanced");
    assert!(ev.value_stack.is_empty());
    core::mem::forget(r);
    core::mem::forget(ev);
    core::mem::forget(program);
    core::mem::forget((arr, obj, _items, _fields, env));
}

macro_rules! manifest_frames_harness {
    ($name:ident, $which:expr) => {
        eval_stubs! {
        #[kani::proof]
        #[kani::unwind(8)]
        #[kani::stub(crate::program::eval::Evaluator::report_error, crate::program::eval::Evaluator::kstub_report_error)]
        #[kani::stub(crate::program::data::ObjectData::get_fields_order, crate::program::data::ObjectData::kstub_get_fields_order_cached)]
        #[kani::stub(alloc::string::String::push, crate::kani_support::stub_string_push_nothing)]
        #[kani::stub(alloc::string::String::push_str, crate::kani_support::stub_string_push_str_nothing)]
        #[kani::stub(str::repeat, crate::kani_support::stub_str_repeat_empty)]
        fn $name() {
            manifest_step_case($which, false);
            kani::cover!(true, "array step");
            manifest_step_case($which, true);
            kani::cover!(true, "object step");
        }
        }
    };
}

// @harness id=c10_manifest_frames_json props=C10 tier=attempt cap=2700 unwindset=do_manifest_json@all:2
// @desc one real step of do_manifest_json (std.toString, std.manifestJson*, string coercion) on a one-element array and on a one-field object with an unevaluated element (the per-element code is the loop body; more elements repeat it), from ANY trace length: every element's thunk is forced and its child ManifestJson state runs at trace length + 1, inside a counted frame of its own, and the frames are balanced - so nesting depth of a manifested value is bounded by the frame limit
// @bound arrays / one-layer objects of 1 element; every loop of the manifester unwound to 2 iterations (unwinding assertions on) (get_fields_order stubbed by 'return the cached list'); default to-string format, depth 0
// @funcs Evaluator::do_manifest_json, Evaluator::push_trace_item, Evaluator::delay_trace_item, ObjectData::get_visible_fields_order, Program::find_object_field_thunk
// @out the text produced (String::push / push_str / str::repeat are stubbed by no-ops: only the scheduling is decided); other formats of the JSON manifester
manifest_frames_harness!(c10_manifest_frames_json, 0);

// @harness id=c10_manifest_frames_yaml props=C10 tier=attempt cap=2700 unwindset=do_manifest_yaml_doc@all:2
// @desc as c10_manifest_frames_json for do_manifest_yaml_doc (std.manifestYamlDoc / Stream, -y output)
// @bound arrays / one-layer objects of 1 element; every loop of the manifester unwound to 2 iterations (unwinding assertions on); top level, unquoted keys
// @funcs Evaluator::do_manifest_yaml_doc, Evaluator::push_trace_item, Evaluator::delay_trace_item
manifest_frames_harness!(c10_manifest_frames_yaml, 1);

// @harness id=c10_manifest_frames_python props=C10 tier=attempt cap=2700 unwindset=do_manifest_python@all:2
// @desc as c10_manifest_frames_json for do_manifest_python (std.manifestPython / manifestPythonVars)
// @bound arrays / one-layer objects of 1 element; every loop of the manifester unwound to 2 iterations (unwinding assertions on)
// @funcs Evaluator::do_manifest_python, Evaluator::push_trace_item, Evaluator::delay_trace_item
manifest_frames_harness!(c10_manifest_frames_python, 2);

// @harness id=c10_manifest_frames_toml props=C10 tier=attempt cap=2700 unwindset=do_manifest_toml_value@all:2
// @desc as c10_manifest_frames_json for do_manifest_toml_value (inline arrays and tables of std.manifestToml*)
// @bound arrays / one-layer objects of 1 element; every loop of the manifester unwound to 2 iterations (unwinding assertions on); depth 0, not inside an inline table
// @funcs Evaluator::do_manifest_toml_value, Evaluator::push_trace_item, Evaluator::delay_trace_item
manifest_frames_harness!(c10_manifest_frames_toml, 3);

// @harness id=c10_stack_trace_balanced props=C10,C16,C01 tier=attempt cap=1500
// @desc Evaluator::get_stack_trace (the trace attached to every error) on a state stack produced by ANY sequence of four frame operations - push_trace_item, delay_trace_item (only while a frame is counted, as dec_trace_len demands) and pushes of ordinary states: it never pops an empty vector (no panic while REPORTING an error) and returns exactly stack_trace_len frames, i.e. the counter the limit is tested against equals the number of frames an error report shows
// @bound sequences of 4 operations from an empty stack
// @funcs Evaluator::get_stack_trace, Evaluator::push_trace_item, Evaluator::delay_trace_item
eval_stubs! {
#[kani::proof]
#[kani::unwind(7)]
fn c10_stack_trace_balanced() {
    let arena = Arena::new();
    let mut program = bare_program(&arena);
    let mut ev = bare_evaluator(&mut program);
    ev.state_stack.reserve(8);
    let mut k = 0;
    while k < 4 {
        let op: u8 = kani::any();
        kani::assume(op < 3);
        match op {
            0 => ev.push_trace_item(TraceItem::CompareArrayItem { index: k }),
            1 => {
                kani::assume(ev.stack_trace_len > 0);
                ev.delay_trace_item();
            }
            _ => ev.state_stack.push(State::DiscardValue),
        }
        k += 1;
    }
    let tr = ev.get_stack_trace();
    assert!(tr.len() == ev.stack_trace_len, "the error report shows exactly the counted frames");
    kani::cover!(tr.len() == 0 && ev.state_stack.len() == 4, "all frames suspended again");
    kani::cover!(tr.len() == 4, "four nested frames");
    kani::cover!(tr.len() == 1, "one live frame");
    core::mem::forget(tr);
    core::mem::forget(ev);
    core::mem::forget(program);
}
}
