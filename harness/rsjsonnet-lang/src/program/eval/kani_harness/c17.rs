//! C17: step contracts of std.sort / std.set / std.uniq / set operations /
//! minArray / maxArray. Every builtin with a loop is an explicit state machine
//! whose step functions take their whole state as arguments; each harness makes
//! the pre-state symbolic (arbitrary cursors, arbitrary comparison outcomes on
//! `cmp_ord_stack`, arbitrary permutation contents), runs ONE real step and
//! asserts the step contract on the post-state read off the evaluator's stacks.
//!
//! Composition argument (not discharged by the solver, standard): quick-sort
//! partition is a stable 3-way split around the first element + sub-ranges are
//! exactly the two classes => by induction on the range length the range ends up
//! a stable sorted permutation; merge of two stably sorted halves taking the left
//! element on `<=` is stable; `sort_slice` splits a range exactly in two.
use super::*;

type Keys<'p> = Rc<Vec<OnceCell<ValueData<'p>>>>;
type Sorted = Rc<Vec<Cell<usize>>>;

fn no_keys<'p>() -> Keys<'p> {
    Rc::new(Vec::new())
}

fn sorted4() -> (Sorted, [usize; 4]) {
    let vals: [usize; 4] = kani::any();
    let v = Rc::new(vec![Cell::new(vals[0]), Cell::new(vals[1]), Cell::new(vals[2]), Cell::new(vals[3])]);
    (v, vals)
}

fn any_ordering() -> std::cmp::Ordering {
    let k: u8 = kani::any();
    kani::assume(k < 3);
    match k {
        0 => std::cmp::Ordering::Less,
        1 => std::cmp::Ordering::Equal,
        _ => std::cmp::Ordering::Greater,
    }
}

// @harness id=c17_sort_slice props=C17 tier=quick cap=900
// @desc do_std_sort_slice on any range start <= end <= 200: longer than 30 => a merge of the two halves [start,mid) and [mid,end) with mid = start + len/2 that partition the range exactly, left half sorted first; 2..=30 => quick sort of exactly that range; 0 or 1 elements => nothing to do
// @bound all ranges with end <= 200 (lengths only enter through index arithmetic)
// @funcs Evaluator::do_std_sort_slice
eval_stubs! {
#[kani::proof]
#[kani::unwind(3)]
fn c17_sort_slice() {
    let arena = Arena::new();
    let mut program = bare_program(&arena);
    let mut ev = bare_evaluator(&mut program);
    let start: usize = kani::any();
    let end: usize = kani::any();
    kani::assume(start <= end && end <= 200);
    let sorted: Sorted = Rc::new(Vec::new());
    ev.do_std_sort_slice(no_keys(), sorted, start..end);
    let len = end - start;
    if len > 30 {
        assert!(ev.state_stack.len() == 3, "merge: three continuations");
        let mid = match &ev.state_stack[0] {
            State::StdSortMergePrepare { range, mid, .. } => {
                assert!(range.start == start && range.end == end, "merge covers the whole range");
                *mid
            }
            _ => { assert!(false, "merge prepare expected at the bottom"); 0 }
        };
        assert!(mid == start + len / 2 && start < mid && mid < end, "mid splits the range into two non-empty halves");
        match &ev.state_stack[1] {
            State::StdSortSlice { range, .. } => assert!(range.start == mid && range.end == end, "right half"),
            _ => assert!(false, "right half slice expected"),
        }
        match &ev.state_stack[2] {
            State::StdSortSlice { range, .. } => assert!(range.start == start && range.end == mid, "left half (runs first)"),
            _ => assert!(false, "left half slice expected"),
        }
        kani::cover!(len == 31, "smallest merged range");
    } else if len > 1 {
        assert!(ev.state_stack.len() == 1, "quick sort: one continuation");
        match &ev.state_stack[0] {
            State::StdSortQuickSort1 { range, .. } => assert!(range.start == start && range.end == end, "quick sort of the same range"),
            _ => assert!(false, "quick sort expected"),
        }
        kani::cover!(len == 30, "largest quick-sorted range");
    } else {
        assert!(ev.state_stack.is_empty(), "nothing to sort");
        kani::cover!(len == 1, "single element");
    }
    core::mem::forget(ev);
    core::mem::forget(program);
}
}

// @harness id=c17_quick_sort_1 props=C17 tier=quick cap=900
// @desc do_std_sort_quick_sort_1 on any sub-range (length >= 2) of a 4-element permutation vector: schedules the partition step for the same range and, above it, one comparison (item, pivot) per non-pivot item with pivot = first element, ordered so that they run in segment order
// @bound permutation vector of 4 arbitrary entries; all sub-ranges
// @funcs Evaluator::do_std_sort_quick_sort_1
eval_stubs! {
#[kani::proof]
#[kani::unwind(6)]
fn c17_quick_sort_1() {
    let arena = Arena::new();
    let mut program = bare_program(&arena);
    let mut ev = bare_evaluator(&mut program);
    let (sorted, vals) = sorted4();
    let start: usize = kani::any();
    let end: usize = kani::any();
    kani::assume(start < end && end <= 4 && end - start >= 2);
    ev.do_std_sort_quick_sort_1(no_keys(), sorted.clone(), start..end);
    let len = end - start;
    assert!(ev.state_stack.len() == len, "partition step + one comparison per non-pivot item");
    match &ev.state_stack[0] {
        State::StdSortQuickSort2 { range, .. } => assert!(range.start == start && range.end == end, "partition of the same range"),
        _ => assert!(false, "partition step expected at the bottom"),
    }
    let mut k = 1;
    while k < 4 {
        if k < len {
            // state_stack[len - k] runs k-th: it must compare item start+k with the pivot
            match &ev.state_stack[len - k] {
                State::StdSortCompare { lhs, rhs, .. } => {
                    assert!(*lhs == vals[start + k], "k-th comparison takes the k-th item as left operand");
                    assert!(*rhs == vals[start], "pivot (first element) is the right operand");
                }
                _ => assert!(false, "comparison expected"),
            }
        }
        k += 1;
    }
    kani::cover!(len == 4, "full range");
    kani::cover!(start == 2, "tail range");
    core::mem::forget(ev);
    core::mem::forget(program);
    core::mem::forget(sorted);
}
}

fn check_quick_sort_2(start: usize, end: usize, n_foreign: usize) {
    let arena = Arena::new();
    let mut program = bare_program(&arena);
    let mut ev = bare_evaluator(&mut program);
    let (sorted, vals) = sorted4();
    let len = end - start;
    // outcomes that belong to somebody else (an enclosing sort whose key comparison forced this sort)
    let foreign = [any_ordering(), any_ordering()];
    let mut k = 0;
    while k < 2 {
        if k < n_foreign {
            ev.cmp_ord_stack.push(foreign[k]);
        }
        k += 1;
    }
    let ords = [any_ordering(), any_ordering(), any_ordering()];
    k = 0;
    while k < 3 {
        if k < len - 1 {
            ev.cmp_ord_stack.push(ords[k]);
        }
        k += 1;
    }
    ev.do_std_sort_quick_sort_2(no_keys(), sorted.clone(), start..end);

    // expected stable partition
    let mut expect = vals;
    let mut n_lt = 0;
    let mut pos = start;
    k = 0;
    while k < 3 {
        if k < len - 1 && ords[k].is_lt() {
            expect[pos] = vals[start + 1 + k];
            pos += 1;
            n_lt += 1;
        }
        k += 1;
    }
    expect[pos] = vals[start];
    pos += 1;
    k = 0;
    while k < 3 {
        if k < len - 1 && !ords[k].is_lt() {
            expect[pos] = vals[start + 1 + k];
            pos += 1;
        }
        k += 1;
    }
    let n_ge = len - 1 - n_lt;
    k = 0;
    while k < 4 {
        assert!(sorted[k].get() == expect[k], "stable three-way layout: Less items, pivot, the rest; outside the range untouched");
        k += 1;
    }
    assert!(ev.cmp_ord_stack.len() == n_foreign, "exactly this step's outcomes are consumed");
    k = 0;
    while k < 2 {
        if k < n_foreign {
            assert!(ev.cmp_ord_stack[k] == foreign[k], "outcomes of the enclosing computation are untouched");
        }
        k += 1;
    }
    // scheduled sub-sorts
    let want_states = (n_lt > 1) as usize + (n_ge > 1) as usize;
    assert!(ev.state_stack.len() == want_states, "one sub-sort per class longer than one");
    let mut idx = 0;
    if n_ge > 1 {
        match &ev.state_stack[idx] {
            State::StdSortQuickSort1 { range, .. } => assert!(range.start == start + n_lt + 1 && range.end == end, "sub-sort of the not-Less class"),
            _ => assert!(false, "quick sort expected"),
        }
        idx += 1;
    }
    if n_lt > 1 {
        match &ev.state_stack[idx] {
            State::StdSortQuickSort1 { range, .. } => assert!(range.start == start && range.end == start + n_lt, "sub-sort of the Less class"),
            _ => assert!(false, "quick sort expected"),
        }
    }
    kani::cover!(n_lt >= 1, "at least one item smaller than the pivot");
    kani::cover!(n_ge == len - 1, "all items not smaller than the pivot");
    core::mem::forget(ev);
    core::mem::forget(program);
    core::mem::forget(sorted);
}

macro_rules! c17_quick_sort_2_harness {
    ($name:ident, $start:expr, $end:expr, $nf:expr) => {
        eval_stubs! {
        #[kani::proof]
        #[kani::unwind(6)]
        fn $name() {
            check_quick_sort_2($start, $end, $nf);
        }
        }
    };
}

// @harness id=c17_quick_sort_2_r04 props=C17 tier=thorough cap=1200
// @desc do_std_sort_quick_sort_2 on the whole of a 4-element permutation vector with arbitrary entries and arbitrary comparison outcomes, while 2 unrelated outcomes of an enclosing computation sit below them on cmp_ord_stack: the range becomes [items that compared Less, in order] ++ [pivot] ++ [the others, in order] (stable partition), the enclosing outcomes are untouched, exactly this step's outcomes are consumed, and the scheduled sub-sorts are exactly the two classes when longer than one
// @bound vector of 4 arbitrary entries, range 0..4, 2 foreign outcomes below
// @funcs Evaluator::do_std_sort_quick_sort_2
c17_quick_sort_2_harness!(c17_quick_sort_2_r04, 0, 4, 2);

// @harness id=c17_quick_sort_2_r13 props=C17 tier=quick cap=1200
// @desc as c17_quick_sort_2_r04 for the inner range 1..3 (entries outside the range must stay untouched), with 1 unrelated outcome of an enclosing computation below this step's outcomes on cmp_ord_stack (it must stay untouched: a sort forced inside a key comparison of another sort)
// @bound vector of 4 arbitrary entries, range 1..3, 1 foreign outcome below
// @funcs Evaluator::do_std_sort_quick_sort_2
c17_quick_sort_2_harness!(c17_quick_sort_2_r13, 1, 3, 1);

// @harness id=c17_quick_sort_2_r14 props=C17 tier=attempt cap=1800
// @desc as c17_quick_sort_2_r04 for the range 1..4 with 1 foreign outcome
// @bound vector of 4 arbitrary entries, range 1..4
// @funcs Evaluator::do_std_sort_quick_sort_2
c17_quick_sort_2_harness!(c17_quick_sort_2_r14, 1, 4, 1);

// @harness id=c17_quick_sort_2_r03 props=C17 tier=attempt cap=1800
// @desc as c17_quick_sort_2_r04 for the range 0..3 with 2 foreign outcomes
// @bound vector of 4 arbitrary entries, range 0..3
// @funcs Evaluator::do_std_sort_quick_sort_2
c17_quick_sort_2_harness!(c17_quick_sort_2_r03, 0, 3, 2);

// @harness id=c17_quick_sort_2_r24 props=C17 tier=attempt cap=1800
// @desc as c17_quick_sort_2_r04 for the range 2..4 with 2 foreign outcomes
// @bound vector of 4 arbitrary entries, range 2..4
// @funcs Evaluator::do_std_sort_quick_sort_2
c17_quick_sort_2_harness!(c17_quick_sort_2_r24, 2, 4, 2);

type Unmerged = Rc<(Cell<usize>, Box<[usize]>, Cell<usize>, Box<[usize]>)>;

fn any_unmerged() -> (Unmerged, [usize; 2], [usize; 2], usize, usize) {
    // left and right runs of length 1..=2 with arbitrary contents and arbitrary cursors
    let l: [usize; 2] = kani::any();
    let r: [usize; 2] = kani::any();
    let nl: usize = kani::any();
    let nr: usize = kani::any();
    kani::assume(nl >= 1 && nl <= 2 && nr >= 1 && nr <= 2);
    let left: Box<[usize]> = if nl == 1 { Box::new([l[0]]) } else { Box::new([l[0], l[1]]) };
    let right: Box<[usize]> = if nr == 1 { Box::new([r[0]]) } else { Box::new([r[0], r[1]]) };
    let li: usize = kani::any();
    let ri: usize = kani::any();
    kani::assume(li <= nl && ri <= nr);
    (Rc::new((Cell::new(li), left, Cell::new(ri), right)), l, r, nl, nr)
}

// @harness id=c17_merge_post_compare props=C17 tier=quick cap=1200
// @desc do_std_sort_merge_post_compare with runs of length 1..=2, any cursors inside them and any comparison outcome: on Less or Equal the LEFT element is written (equal keys keep input order = stability), otherwise the right one; the written slot is start + left_i + right_i; exactly one cursor advances by one; the pre-compare step is rescheduled
// @bound runs of 1..=2 arbitrary entries, destination of 6 slots
// @funcs Evaluator::do_std_sort_merge_post_compare
eval_stubs! {
#[kani::proof]
#[kani::unwind(8)]
fn c17_merge_post_compare() {
    let arena = Arena::new();
    let mut program = bare_program(&arena);
    let mut ev = bare_evaluator(&mut program);
    let (unmerged, l, r, nl, nr) = any_unmerged();
    let li = unmerged.0.get();
    let ri = unmerged.2.get();
    kani::assume(li < nl && ri < nr); // both runs non-exhausted: the only way this step is scheduled
    let start: usize = kani::any();
    kani::assume(start <= 2);
    let init: [usize; 6] = kani::any();
    let sorted: Sorted = Rc::new(init.iter().map(|&v| Cell::new(v)).collect());
    let ord = any_ordering();
    ev.cmp_ord_stack.push(ord);
    ev.do_std_sort_merge_post_compare(no_keys(), sorted.clone(), start, unmerged.clone());
    let slot = start + li + ri;
    let mut k = 0;
    while k < 6 {
        if k == slot {
            if ord.is_le() {
                assert!(sorted[k].get() == l[li], "Less or Equal takes the left element (stability)");
            } else {
                assert!(sorted[k].get() == r[ri], "Greater takes the right element");
            }
        } else {
            assert!(sorted[k].get() == init[k], "no other slot is written");
        }
        k += 1;
    }
    if ord.is_le() {
        assert!(unmerged.0.get() == li + 1 && unmerged.2.get() == ri, "left cursor advances by one");
    } else {
        assert!(unmerged.0.get() == li && unmerged.2.get() == ri + 1, "right cursor advances by one");
    }
    assert!(ev.cmp_ord_stack.is_empty(), "outcome consumed");
    assert!(ev.state_stack.len() == 1, "one continuation");
    match &ev.state_stack[0] {
        State::StdSortMergePreCompare { start: s, .. } => assert!(*s == start, "pre-compare rescheduled for the same merge"),
        _ => assert!(false, "pre-compare expected"),
    }
    kani::cover!(ord == std::cmp::Ordering::Equal, "equal keys");
    kani::cover!(li == 1 && ri == 1, "both cursors advanced before");
    core::mem::forget(ev);
    core::mem::forget(program);
    core::mem::forget((sorted, unmerged));
}
}

// @harness id=c17_merge_pre_compare props=C17 tier=quick cap=1200
// @desc do_std_sort_merge_pre_compare with runs of length 1..=2 and any cursors: when one run is exhausted the remainder of the other is copied in order to slots start+left_i+right_i.. and the merge ends; otherwise the keys of the two current elements are pushed as (left, right) for comparison and the post-compare step is scheduled below the comparison
// @bound runs of 1..=2 entries (entries < 4, keys = 4 arbitrary finite numbers), destination of 6 slots
// @funcs Evaluator::do_std_sort_merge_pre_compare
eval_stubs! {
#[kani::proof]
#[kani::unwind(8)]
fn c17_merge_pre_compare() {
    let arena = Arena::new();
    let mut program = bare_program(&arena);
    let mut ev = bare_evaluator(&mut program);
    let (unmerged, l, r, nl, nr) = any_unmerged();
    kani::assume(l[0] < 4 && l[1] < 4 && r[0] < 4 && r[1] < 4);
    let li = unmerged.0.get();
    let ri = unmerged.2.get();
    kani::assume(li < nl || ri < nr); // not both exhausted (the merge would have ended)
    let kv = [any_finite(), any_finite(), any_finite(), any_finite()];
    let keys: Keys<'_> = Rc::new(vec![
        OnceCell::from(ValueData::Number(kv[0])),
        OnceCell::from(ValueData::Number(kv[1])),
        OnceCell::from(ValueData::Number(kv[2])),
        OnceCell::from(ValueData::Number(kv[3])),
    ]);
    let start: usize = kani::any();
    kani::assume(start <= 2);
    let init: [usize; 6] = kani::any();
    let sorted: Sorted = Rc::new(init.iter().map(|&v| Cell::new(v)).collect());
    ev.do_std_sort_merge_pre_compare(keys.clone(), sorted.clone(), start, unmerged.clone());
    let base = start + li + ri;
    if li == nl {
        let mut k = 0;
        while k < 6 {
            if k >= base && k < base + (nr - ri) {
                assert!(sorted[k].get() == r[ri + (k - base)], "right remainder copied in order");
            } else {
                assert!(sorted[k].get() == init[k], "other slots untouched");
            }
            k += 1;
        }
        assert!(ev.state_stack.is_empty() && ev.value_stack.is_empty(), "merge finished");
        kani::cover!(nr - ri == 2, "two elements copied");
    } else if ri == nr {
        let mut k = 0;
        while k < 6 {
            if k >= base && k < base + (nl - li) {
                assert!(sorted[k].get() == l[li + (k - base)], "left remainder copied in order");
            } else {
                assert!(sorted[k].get() == init[k], "other slots untouched");
            }
            k += 1;
        }
        assert!(ev.state_stack.is_empty() && ev.value_stack.is_empty(), "merge finished");
    } else {
        assert!(ev.state_stack.len() == 2, "post-compare below a comparison");
        assert!(matches!(&ev.state_stack[0], State::StdSortMergePostCompare { start: s, .. } if *s == start), "post-compare of the same merge");
        assert!(matches!(&ev.state_stack[1], State::CompareValue), "comparison runs first");
        assert!(ev.value_stack.len() == 2, "two keys pushed");
        assert!(matches!(&ev.value_stack[0], ValueData::Number(x) if *x == kv[l[li]]), "left operand = key of the current left element");
        assert!(matches!(&ev.value_stack[1], ValueData::Number(x) if *x == kv[r[ri]]), "right operand = key of the current right element");
        let mut k = 0;
        while k < 6 {
            assert!(sorted[k].get() == init[k], "nothing written before the comparison");
            k += 1;
        }
        kani::cover!(li == 1 && ri == 1, "comparison of second elements");
    }
    core::mem::forget(ev);
    core::mem::forget(program);
    core::mem::forget((sorted, unmerged, keys));
}
}

// @harness id=c17_must_fail props=C17 tier=quick cap=900 expect=fail
// @desc vacuity twin for the sort-step harnesses
eval_stubs! {
#[kani::proof]
#[kani::unwind(6)]
fn c17_must_fail() {
    let arena = Arena::new();
    let mut program = bare_program(&arena);
    let mut ev = bare_evaluator(&mut program);
    let (sorted, _vals) = sorted4();
    ev.cmp_ord_stack.push(any_ordering());
    ev.do_std_sort_quick_sort_2(no_keys(), sorted.clone(), 1..3);
    core::mem::forget(ev);
    core::mem::forget(program);
    core::mem::forget(sorted);
    assert!(false, "reachability witness");
}
}
