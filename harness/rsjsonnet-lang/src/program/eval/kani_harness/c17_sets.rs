//! C17 (continued): merge walks of the set operations, binary search of
//! std.setMember, and the running minimum / maximum of std.minArray / maxArray.
//! Key function = the identity function; `execute_call` is stubbed by its
//! identity arm (see `kstub_execute_call`).
use super::*;

fn any_ordering() -> std::cmp::Ordering {
    let k: u8 = kani::any();
    kani::assume(k < 3);
    match k {
        0 => std::cmp::Ordering::Less,
        1 => std::cmp::Ordering::Equal,
        _ => std::cmp::Ordering::Greater,
    }
}

/// Checks that after a merge step the continuation compares (a[i], b[j]): the state stack holds the aux
/// state, the comparison, and two identity calls whose thunks are a[i] (evaluated first) and b[j].
fn continuation_compares<'p>(
    ev: &Evaluator<'_, 'p>,
    a_items: &[GcView<ThunkData<'p>>],
    b_items: &[GcView<ThunkData<'p>>],
    i: usize,
    j: usize,
) -> bool {
    // pushed in order: Aux, CompareValue, [TraceItem(Call), DoThunk(b[j])], [TraceItem(Call), DoThunk(a[i])]
    let n = ev.state_stack.len();
    if n != 6 {
        return false;
    }
    let ok_cmp = matches!(&ev.state_stack[1], State::CompareValue);
    let ok_b = matches!(&ev.state_stack[3], State::DoThunk(t) if t.kani_same(&b_items[j]));
    let ok_a = matches!(&ev.state_stack[5], State::DoThunk(t) if t.kani_same(&a_items[i]));
    let ok_tr = matches!(&ev.state_stack[2], State::TraceItem(_)) && matches!(&ev.state_stack[4], State::TraceItem(_));
    ok_cmp && ok_b && ok_a && ok_tr
}

fn result_is<'p>(ev: &Evaluator<'_, 'p>, expect: &[&GcView<ThunkData<'p>>]) -> bool {
    let Some(arr) = ev.array_stack.last() else { return false };
    if arr.len() != expect.len() {
        return false;
    }
    let mut k = 0;
    let mut ok = true;
    while k < expect.len() {
        if !arr[k].kani_points_to(expect[k]) {
            ok = false;
        }
        k += 1;
    }
    ok
}

macro_rules! set_aux_harness {
    ($name:ident, $which:expr) => {
        eval_stubs_call! {
        #[kani::proof]
        #[kani::unwind(6)]
        fn $name() {
            // which: 0 = inter, 1 = union, 2 = diff
            let arena = Arena::new();
            let mut program = bare_program(&arena);
            let keyf = identity_func(&arena, &program.str_interner);
            let (a, a_items, _) = number_array::<2>();
            let (b, b_items, _) = number_array::<2>();
            let keep = (a.clone(), b.clone(), keyf.clone());
            let mut ev = bare_evaluator(&mut program);
            let i: usize = kani::any();
            let j: usize = kani::any();
            kani::assume(i < 2 && j < 2);
            let ord = any_ordering();
            ev.cmp_ord_stack.push(ord);
            ev.array_stack.push(Vec::with_capacity(8));
            let res = match $which {
                0 => ev.do_std_set_inter_aux(keyf, a, b, i, j),
                1 => ev.do_std_set_union_aux(keyf, a, b, i, j),
                _ => ev.do_std_set_diff_aux(keyf, a, b, i, j),
            };
            assert!(res.is_ok(), "a merge step with the identity key function cannot fail");
            // textbook merge walk
            let (ni, nj, take_a, take_b) = match ord {
                std::cmp::Ordering::Less => (i + 1, j, $which != 0, false),
                std::cmp::Ordering::Equal => (i + 1, j + 1, $which != 2, false),
                std::cmp::Ordering::Greater => (i, j + 1, false, $which == 1),
            };
            let a_done = ni == 2;
            let b_done = nj == 2;
            // element appended by this step, then the remainder the operation owes on exhaustion
            let mut expect: Vec<&GcView<ThunkData<'_>>> = Vec::with_capacity(4);
            if take_a {
                expect.push(&a_items[i]);
            }
            if take_b {
                expect.push(&b_items[j]);
            }
            let finished = if $which == 0 { a_done || b_done } else { a_done || b_done };
            if finished {
                if $which == 1 && a_done {
                    let mut k = nj;
                    while k < 2 {
                        expect.push(&b_items[k]);
                        k += 1;
                    }
                } else if ($which == 1 || $which == 2) && b_done {
                    let mut k = ni;
                    while k < 2 {
                        expect.push(&a_items[k]);
                        k += 1;
                    }
                }
                assert!(ev.state_stack.len() == 1 && matches!(&ev.state_stack[0], State::ArrayToValue), "the walk ends when a side is exhausted");
                kani::cover!(true, "walk finished");
            } else {
                assert!(continuation_compares(&ev, &a_items, &b_items, ni, nj), "the continuation compares the new current elements (a[i], b[j])");
                match &ev.state_stack[0] {
                    State::StdSetInterAux { i: si, j: sj, .. } => assert!($which == 0 && *si == ni && *sj == nj, "cursors advance as in the textbook merge"),
                    State::StdSetUnionAux { i: si, j: sj, .. } => assert!($which == 1 && *si == ni && *sj == nj, "cursors advance as in the textbook merge"),
                    State::StdSetDiffAux { i: si, j: sj, .. } => assert!($which == 2 && *si == ni && *sj == nj, "cursors advance as in the textbook merge"),
                    _ => assert!(false, "aux state expected"),
                }
                kani::cover!(true, "walk continues");
            }
            assert!(result_is(&ev, &expect), "exactly the elements the set operation owes are appended, in order");
            assert!(ev.cmp_ord_stack.is_empty(), "comparison outcome consumed");
            core::mem::forget(expect);
            core::mem::forget(res);
            core::mem::forget(ev);
            core::mem::forget(program);
            core::mem::forget((keep, a_items, b_items));
        }
        }
    };
}

// @harness id=c17_set_inter_step props=C17 tier=attempt cap=5400 mem=40
// @desc one step of std.setInter's merge walk over two 2-element sets, from any cursors and any comparison outcome: Less advances a, Greater advances b, Equal appends a[i] and advances both; the walk ends as soon as one side is exhausted; otherwise the continuation compares (a[i'], b[j'])
// @bound sets of 2 elements, all cursor positions, all three outcomes; key function = identity
// @funcs Evaluator::do_std_set_inter_aux, Evaluator::check_thunk_args_and_execute_call, Evaluator::check_call_thunk_args
set_aux_harness!(c17_set_inter_step, 0);

// @harness id=c17_set_union_step props=C17 tier=attempt cap=5400 mem=40
// @desc one step of std.setUnion's merge walk: Less appends a[i], Greater appends b[j], Equal appends a[i] once and advances both; on exhaustion of one side the remainder of the other is appended in order
// @bound sets of 2 elements, all cursor positions, all three outcomes; key function = identity
// @funcs Evaluator::do_std_set_union_aux
set_aux_harness!(c17_set_union_step, 1);

// @harness id=c17_set_diff_step props=C17 tier=attempt cap=5400 mem=40
// @desc one step of std.setDiff's merge walk: Less appends a[i] (it is not in b), Equal drops it, Greater advances b; when b is exhausted the remainder of a is appended, when a is exhausted nothing more
// @bound sets of 2 elements, all cursor positions, all three outcomes; key function = identity
// @funcs Evaluator::do_std_set_diff_aux
set_aux_harness!(c17_set_diff_step, 2);

// @harness id=c17_set_member_check props=C17 tier=quick cap=1500
// @desc one step of std.setMember's binary search on a set of length <= 8 from any interval start <= mid <= end: Equal answers true; Less continues in [start, mid-1] and Greater in [mid+1, end] (strictly smaller intervals, so the search terminates), and false is answered only when the corresponding side is empty; do_std_set_member_slice picks start <= mid <= end
// @bound interval bounds below 8 (they only enter through index arithmetic)
// @funcs Evaluator::do_std_set_member_check
eval_stubs_call! {
#[kani::proof]
#[kani::unwind(6)]
fn c17_set_member_check() {
    let arena = Arena::new();
    let mut program = bare_program(&arena);
    let keyf = identity_func(&arena, &program.str_interner);
    let (arr, _items, _) = number_array::<1>();
    let keep = (arr.clone(), keyf.clone());
    let mut ev = bare_evaluator(&mut program);
    let start: usize = kani::any();
    let end: usize = kani::any();
    kani::assume(start <= end && end < 8);
    let mid = start + (end - start) / 2; // as chosen by do_std_set_member_slice
    let ord = any_ordering();
    ev.cmp_ord_stack.push(ord);
    ev.value_stack.push(ValueData::Number(any_finite())); // key of the searched element
    let res = ev.do_std_set_member_check(keyf, arr, start, end, mid);
    assert!(res.is_ok(), "a search step cannot fail");
    assert!(start <= mid && mid <= end, "mid inside the interval");
    match ord {
        std::cmp::Ordering::Equal => {
            assert!(matches!(ev.value_stack.last(), Some(ValueData::Bool(true))) && ev.state_stack.is_empty(), "found");
        }
        std::cmp::Ordering::Less => {
            if mid == start {
                assert!(matches!(ev.value_stack.last(), Some(ValueData::Bool(false))) && ev.state_stack.is_empty(), "left side empty: not a member");
            } else {
                assert!(matches!(&ev.state_stack[0], State::StdSetMemberSlice { start: s, end: e, .. } if *s == start && *e == mid - 1), "continue in the left half");
                kani::cover!(true, "search continues left");
            }
        }
        std::cmp::Ordering::Greater => {
            if mid == end {
                assert!(matches!(ev.value_stack.last(), Some(ValueData::Bool(false))) && ev.state_stack.is_empty(), "right side empty: not a member");
            } else {
                assert!(matches!(&ev.state_stack[0], State::StdSetMemberSlice { start: s, end: e, .. } if *s == mid + 1 && *e == end), "continue in the right half");
                kani::cover!(true, "search continues right");
            }
        }
    }
    assert!(ev.value_stack.len() == 1, "the searched key stays (or is replaced by the answer)");
    core::mem::forget(res);
    core::mem::forget(ev);
    core::mem::forget(program);
    core::mem::forget((keep, _items));
}
}

// @harness id=c17_min_max_check_item props=C17 tier=attempt cap=5400 mem=40
// @desc one step of std.minArray / std.maxArray over a 3-element array from any position: the candidate is replaced only on a STRICT improvement (Greater for min, Less for max), so the first minimal / maximal element is kept; the key of the loser is dropped from the value stack; at the end the chosen element's thunk is scheduled, otherwise the next element's key is requested
// @bound array of 3 elements, cur_index in {1,2}, any retained index, any outcome
// @funcs Evaluator::do_std_min_array_check_item, Evaluator::do_std_max_array_check_item
eval_stubs_call! {
#[kani::proof]
#[kani::unwind(6)]
fn c17_min_max_check_item() {
    let arena = Arena::new();
    let mut program = bare_program(&arena);
    let keyf = identity_func(&arena, &program.str_interner);
    let (arr, items, _) = number_array::<3>();
    let keep = (arr.clone(), keyf.clone());
    let mut ev = bare_evaluator(&mut program);
    let cur: usize = kani::any();
    let best: usize = kani::any();
    kani::assume(cur >= 1 && cur <= 2 && best < cur);
    let is_min: bool = kani::any();
    let ord = any_ordering();
    ev.cmp_ord_stack.push(ord);
    let best_key = any_finite();
    let cur_key = any_finite();
    ev.value_stack.push(ValueData::Number(best_key));
    ev.value_stack.push(ValueData::Number(cur_key));
    let res = if is_min {
        ev.do_std_min_array_check_item(keyf, arr, cur, best)
    } else {
        ev.do_std_max_array_check_item(keyf, arr, cur, best)
    };
    assert!(res.is_ok(), "a step with the identity key function cannot fail");
    // ord = cmp(best_key, cur_key)
    let replace = if is_min { ord.is_gt() } else { ord.is_lt() };
    let new_best = if replace { cur } else { best };
    if cur == 2 {
        assert!(ev.value_stack.is_empty(), "both keys dropped at the end");
        assert!(ev.state_stack.len() == 1, "the chosen element is scheduled");
        assert!(matches!(&ev.state_stack[0], State::DoThunk(t) if t.kani_same(&items[new_best])), "the first minimal / maximal element is returned");
        kani::cover!(ord == std::cmp::Ordering::Equal, "tie at the last element keeps the earlier one");
    } else {
        assert!(ev.value_stack.len() == 1, "only the winner's key stays");
        let kept = if replace { cur_key } else { best_key };
        assert!(matches!(&ev.value_stack[0], ValueData::Number(x) if *x == kept), "the winner's key is kept");
        match &ev.state_stack[0] {
            State::StdMinArrayCompareItem { cur_index, max_index, .. } => assert!(is_min && *cur_index == 2 && *max_index == new_best, "continues with the next element"),
            State::StdMaxArrayCompareItem { cur_index, max_index, .. } => assert!(!is_min && *cur_index == 2 && *max_index == new_best, "continues with the next element"),
            _ => assert!(false, "compare-item continuation expected"),
        }
        assert!(matches!(ev.state_stack.last(), Some(State::DoThunk(t)) if t.kani_same(&items[2])), "the next element's key is requested");
        kani::cover!(replace, "candidate replaced");
    }
    core::mem::forget(res);
    core::mem::forget(ev);
    core::mem::forget(program);
    core::mem::forget((keep, items));
}
}
