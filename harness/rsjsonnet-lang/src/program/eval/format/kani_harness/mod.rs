//! Kani harnesses for std.format (C19, C18): field padding counted in characters,
//! sign / zero-padding decoration.
use std::rc::Rc;

use super::*;
use crate::arena::Arena;
use crate::gc::GcView;
use crate::program::data::{ArrayData, ObjectData, ThunkData};
use crate::program::eval::kani_harness::{bare_evaluator, bare_program, eval_stubs};

fn string_code(left: bool) -> FormatPart {
    FormatPart::Code(FormatCode {
        mkey: None,
        cflags: CFlags { alt: false, zero: false, left, blank: false, plus: false },
        fw: None,
        prec: None,
        _len_mod: None,
        ctype: ConvType::String,
    })
}

fn check_padded(result: &str, s_bytes: &[u8], n_chars: usize, fw: usize, left: bool) {
    let pad = if fw > n_chars { fw - n_chars } else { 0 };
    assert!(result.len() == s_bytes.len() + pad, "exactly width - length(characters) spaces are added");
    let rb = result.as_bytes();
    let mut k = 0;
    while k < 14 {
        if k < rb.len() {
            let want = if left {
                if k < s_bytes.len() { s_bytes[k] } else { b' ' }
            } else if k < pad {
                b' '
            } else {
                s_bytes[k - pad]
            };
            assert!(rb[k] == want, "padding on the correct side, value unchanged");
        }
        k += 1;
    }
    assert!(result.chars().count() >= fw, "a rendered field is never shorter than its width counted in characters");
}

// @harness id=c19_field_padding_array props=C19,C18 tier=attempt cap=1500
// @desc do_std_format_codes_array_3 (the field-width step of std.format / % with an array) on a rendered value of two arbitrary characters (any UTF-8 widths) and any width 0..=6 and justification: the field gets exactly width - 2 spaces (none if width <= 2) on the correct side, i.e. it is never shorter than its width counted in characters, and the next part is scheduled
// @bound values of 2 arbitrary Unicode scalar values (2..8 bytes), width <= 6
// @funcs Evaluator::do_std_format_codes_array_3
eval_stubs! {
#[kani::proof]
#[kani::unwind(16)]
#[kani::stub(alloc::string::String::reserve, crate::kani_support::stub_string_reserve)]
#[kani::stub(alloc::string::String::push_str, crate::kani_support::stub_string_push_str)]
fn c19_field_padding_array() {
    let arena = Arena::new();
    let mut program = bare_program(&arena);
    let mut ev = bare_evaluator(&mut program);
    let c1: char = kani::any();
    let c2: char = kani::any();
    let mut s = String::with_capacity(8);
    s.push(c1);
    s.push(c2);
    let mut sb = [0u8; 8];
    let s_len = s.len();
    let mut k = 0;
    while k < 8 {
        if k < s_len {
            sb[k] = s.as_bytes()[k];
        }
        k += 1;
    }
    let fw: u32 = kani::any();
    kani::assume(fw <= 6);
    let left: bool = kani::any();
    ev.string_stack.push(String::with_capacity(32));
    ev.string_stack.push(s);
    let parts = Rc::new(vec![string_code(left)]);
    let array: GcView<ArrayData<'_>> = GcView::kani_unmanaged(Box::new([]));
    let keep = (parts.clone(), array.clone());
    let res = ev.do_std_format_codes_array_3(parts, array, 0, 1, fw);
    assert!(res.is_ok(), "the width step cannot fail");
    assert!(ev.string_stack.len() == 1, "the rendered value is consumed");
    check_padded(&ev.string_stack[0], &sb[..s_len], 2, fw as usize, left);
    assert!(matches!(ev.state_stack.last(), Some(State::StdFormatCodesArray1 { part_i: 1, array_i: 1, .. })), "the next part is scheduled");
    kani::cover!(s_len == 4 && fw == 3, "two two-byte characters in a width-3 field");
    kani::cover!(left && fw == 6 && s_len == 8, "left-justified astral characters");
    core::mem::forget(res);
    core::mem::forget(ev);
    core::mem::forget(program);
    core::mem::forget(keep);
}
}

// @harness id=c19_field_padding_object props=C19,C18 tier=attempt cap=1500
// @desc do_std_format_codes_object_2 (the field-width step of % with an object) under the same conditions as c19_field_padding_array
// @bound values of 2 arbitrary Unicode scalar values, width <= 6
// @funcs Evaluator::do_std_format_codes_object_2
eval_stubs! {
#[kani::proof]
#[kani::unwind(16)]
#[kani::stub(alloc::string::String::reserve, crate::kani_support::stub_string_reserve)]
#[kani::stub(alloc::string::String::push_str, crate::kani_support::stub_string_push_str)]
fn c19_field_padding_object() {
    let arena = Arena::new();
    let mut program = bare_program(&arena);
    let mut ev = bare_evaluator(&mut program);
    let c1: char = kani::any();
    let c2: char = kani::any();
    let mut s = String::with_capacity(8);
    s.push(c1);
    s.push(c2);
    let mut sb = [0u8; 8];
    let s_len = s.len();
    let mut k = 0;
    while k < 8 {
        if k < s_len {
            sb[k] = s.as_bytes()[k];
        }
        k += 1;
    }
    let fw: u32 = kani::any();
    kani::assume(fw <= 6);
    let left: bool = kani::any();
    ev.string_stack.push(String::with_capacity(32));
    ev.string_stack.push(s);
    let parts = Rc::new(vec![string_code(left)]);
    let object: GcView<ObjectData<'_>> = GcView::kani_unmanaged(ObjectData::new_empty());
    let keep = (parts.clone(), object.clone());
    let res = ev.do_std_format_codes_object_2(parts, object, 0, fw);
    assert!(res.is_ok(), "the width step cannot fail");
    assert!(ev.string_stack.len() == 1, "the rendered value is consumed");
    check_padded(&ev.string_stack[0], &sb[..s_len], 2, fw as usize, left);
    assert!(matches!(ev.state_stack.last(), Some(State::StdFormatCodesObject1 { part_i: 1, .. })), "the next part is scheduled");
    kani::cover!(s_len == 4 && fw == 3, "two two-byte characters in a width-3 field");
    core::mem::forget(res);
    core::mem::forget(ev);
    core::mem::forget(program);
    core::mem::forget(keep);
}
}

// @harness id=c19_decorate_digits props=C19 tier=attempt cap=1500
// @desc decorate_digits (sign / zero padding shared by %d %i %u %e %f %g) for digit strings of 1, 2 or 4 characters, any flag combination, zero-pad width <= 9 and minimum digits <= 9: result = sign (- over + over space) ++ zeros ++ digits, with exactly max(min_digits - len, min_chars - (sign + len), 0) zeros, so the field has at least min_chars characters and at least min_digits digits and never more zeros than either rule asks for
// @bound digits in {"7","42","1.50"}, min_chars <= 9, min_digits <= 9, all flags
// @funcs format::decorate_digits
#[kani::proof]
#[kani::unwind(14)]
#[kani::stub(alloc::string::String::reserve, crate::kani_support::stub_string_reserve)]
#[kani::stub(alloc::string::String::push_str, crate::kani_support::stub_string_push_str)]
fn c19_decorate_digits() {
    let sel: u8 = kani::any();
    kani::assume(sel < 3);
    let digits: &str = match sel {
        0 => "7",
        1 => "42",
        _ => "1.50",
    };
    let is_neg: bool = kani::any();
    let sign: bool = kani::any();
    let blank: bool = kani::any();
    let min_chars: usize = kani::any();
    let min_digits: usize = kani::any();
    kani::assume(min_chars <= 9 && min_digits <= 9);
    let s = decorate_digits(digits, is_neg, min_chars, min_digits, sign, blank);
    let sign_chr: Option<u8> = if is_neg { Some(b'-') } else if sign { Some(b'+') } else if blank { Some(b' ') } else { None };
    let sl = sign_chr.is_some() as usize;
    let dl = digits.len();
    let by_digits = if min_digits > dl { min_digits - dl } else { 0 };
    let by_chars = if min_chars > sl + dl { min_chars - (sl + dl) } else { 0 };
    let zeros = if by_digits > by_chars { by_digits } else { by_chars };
    assert!(s.len() == sl + zeros + dl, "length = sign + zero padding + digits");
    let b = s.as_bytes();
    let db = digits.as_bytes();
    let mut k = 0;
    while k < 13 {
        if k < b.len() {
            let want = if k < sl {
                sign_chr.unwrap()
            } else if k < sl + zeros {
                b'0'
            } else {
                db[k - sl - zeros]
            };
            assert!(b[k] == want, "sign first, then zeros, then the digits");
        }
        k += 1;
    }
    assert!(s.len() >= min_chars, "at least min_chars characters");
    kani::cover!(sign && !is_neg && zeros > 0 && by_chars > by_digits, "plus sign with zero padding to a width");
    kani::cover!(is_neg && by_digits > by_chars, "negative number padded to a precision");
    core::mem::forget(s);
}

// @harness id=c19_must_fail props=C19 tier=quick cap=1500 expect=fail
// @desc vacuity twin of the std.format harnesses
#[kani::proof]
#[kani::unwind(14)]
fn c19_must_fail() {
    let s = decorate_digits("42", kani::any(), 5, 0, kani::any(), false);
    core::mem::forget(s);
    assert!(false, "reachability witness");
}
