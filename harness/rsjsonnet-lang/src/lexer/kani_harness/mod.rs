//! Kani harnesses for the lexer (C14, C01, C06-H3).
use super::*;
use crate::kani_support as ks;

/// A lexer over `input` whose collaborators are real but never exercised by
/// the byte-level scanners.
macro_rules! with_lexer {
    ($lexer:ident, $input:expr, $body:block) => {{
        let arena = Arena::new();
        let ast_arena = Arena::new();
        let str_interner = StrInterner::new();
        let mut span_mgr = SpanManager::new();
        let (span_ctx, _) = span_mgr.insert_source_context($input.len());
        let mut $lexer = Lexer::new(&arena, &ast_arena, &str_interner, &mut span_mgr, span_ctx, $input);
        $body
    }};
}

// @harness id=c14_decode_matches_std props=C14,C01 tier=quick cap=600
// @desc Lexer::eat_any_char on every buffer of 1..4 bytes agrees with core::str::from_utf8 (char, consumed length, error length)
// @bound buffers of 1-4 arbitrary bytes (2^32 + 2^24 + 2^16 + 2^8 buffers in one query); unwind 6
#[kani::proof]
#[kani::unwind(6)]
#[kani::stub(foldhash::seed::gen_per_hasher_seed, ks::stub_gen_per_hasher_seed)]
#[kani::stub(foldhash::seed::global::GlobalSeed::init_slow, ks::stub_init_slow)]
fn c14_decode_matches_std() {
    let buf: [u8; 4] = kani::any();
    let len: usize = kani::any();
    kani::assume(len >= 1 && len <= 4);
    let input = &buf[..len];
    with_lexer!(lexer, input, {
        let got = lexer.eat_any_char();
        let consumed = lexer.end_pos;
        match core::str::from_utf8(input) {
            Ok(s) => {
                let c = s.chars().next().unwrap();
                kani::cover!(c.len_utf8() == 4, "valid 4-byte character");
                assert!(got == Some(Ok(c)), "valid UTF-8: same character");
                assert!(consumed == c.len_utf8(), "valid UTF-8: consumed its length");
            }
            Err(e) if e.valid_up_to() > 0 => {
                let s = core::str::from_utf8(&input[..e.valid_up_to()]).unwrap();
                let c = s.chars().next().unwrap();
                assert!(got == Some(Ok(c)), "valid first character: same character");
                assert!(consumed == c.len_utf8(), "valid first character: consumed its length");
            }
            Err(e) => {
                // maximal invalid prefix = what lossy decoding replaces by one U+FFFD
                let n = e.error_len().unwrap_or(len);
                kani::cover!(n == 3, "3-byte invalid prefix");
                kani::cover!(n == 1 && buf[0] >= 0xC0, "rejected lead byte");
                assert!(got == Some(Err(n)), "invalid UTF-8: error length = maximal invalid prefix");
                assert!(consumed == n, "invalid UTF-8: consumed the invalid prefix");
            }
        }
    });
}
