//! Kani harnesses for the lexer (C14, C01, C06-H3).
use super::*;
use crate::kani_support as ks;

/// A lexer over `input` whose collaborators are real but never exercised by
/// the byte-level scanners.
macro_rules! with_lexer {
    ($lexer:ident, $input:expr, $body:block) => {{
        let arena = Arena::new();
        let ast_arena = Arena::new();
        let str_interner = StrInterner::new();
        let mut span_mgr = SpanManager::new();
        let (span_ctx, _) = span_mgr.insert_source_context($input.len());
        let mut $lexer = Lexer::new(&arena, &ast_arena, &str_interner, &mut span_mgr, span_ctx, $input);
        $body
    }};
}

// @harness id=c14_decode_matches_std props=C14,C01 tier=quick cap=600
// @desc Lexer::eat_any_char on every buffer of 1..4 bytes agrees with core::str::from_utf8 (char, consumed length, error length)
// @bound buffers of 1-4 arbitrary bytes (2^32 + 2^24 + 2^16 + 2^8 buffers in one query); unwind 6
#[kani::proof]
#[kani::unwind(6)]
#[kani::stub(foldhash::seed::gen_per_hasher_seed, ks::stub_gen_per_hasher_seed)]
#[kani::stub(foldhash::seed::global::GlobalSeed::init_slow, ks::stub_init_slow)]
fn c14_decode_matches_std() {
    let buf: [u8; 4] = kani::any();
    let len: usize = kani::any();
    kani::assume(len >= 1 && len <= 4);
    let input = &buf[..len];
    with_lexer!(lexer, input, {
        let got = lexer.eat_any_char();
        let consumed = lexer.end_pos;
        match core::str::from_utf8(input) {
            Ok(s) => {
                let c = s.chars().next().unwrap();
                kani::cover!(c.len_utf8() == 4, "valid 4-byte character");
                assert!(got == Some(Ok(c)), "valid UTF-8: same character");
                assert!(consumed == c.len_utf8(), "valid UTF-8: consumed its length");
            }
            Err(e) if e.valid_up_to() > 0 => {
                let s = core::str::from_utf8(&input[..e.valid_up_to()]).unwrap();
                let c = s.chars().next().unwrap();
                assert!(got == Some(Ok(c)), "valid first character: same character");
                assert!(consumed == c.len_utf8(), "valid first character: consumed its length");
            }
            Err(e) => {
                // maximal invalid prefix = what lossy decoding replaces by one U+FFFD
                let n = e.error_len().unwrap_or(len);
                kani::cover!(n == 3, "3-byte invalid prefix");
                kani::cover!(n == 1 && buf[0] >= 0xC0, "rejected lead byte");
                assert!(got == Some(Err(n)), "invalid UTF-8: error length = maximal invalid prefix");
                assert!(consumed == n, "invalid UTF-8: consumed the invalid prefix");
            }
        }
    });
}

fn err_span(e: &LexError) -> SpanId {
    match e {
        LexError::InvalidChar { span, .. }
        | LexError::InvalidUtf8 { span, .. }
        | LexError::UnfinishedMultilineComment { span }
        | LexError::LeadingZeroInNumber { span }
        | LexError::MissingFracDigits { span }
        | LexError::MissingExpDigits { span }
        | LexError::MissingDigitAfterUnderscore { span }
        | LexError::ExpOverflow { span }
        | LexError::InvalidEscapeInString { span, .. }
        | LexError::IncompleteUnicodeEscape { span }
        | LexError::InvalidUtf16EscapeSequence { span, .. }
        | LexError::UnfinishedString { span }
        | LexError::MissingLineBreakAfterTextBlockStart { span }
        | LexError::MissingWhitespaceTextBlockStart { span }
        | LexError::InvalidTextBlockTermination { span } => *span,
    }
}

/// Lexes `input` to the end (at most `input.len() + 1` tokens) and checks the tiling contract.
fn check_tiling(input: &[u8]) {
    let n = input.len();
    let arena = Arena::new();
    let ast_arena = Arena::new();
    let str_interner = StrInterner::new();
    let mut span_mgr = SpanManager::new();
    let (span_ctx, _) = span_mgr.insert_source_context(n);
    let mut lexer = Lexer::new(&arena, &ast_arena, &str_interner, &mut span_mgr, span_ctx, input);
    let mut pos = 0usize;
    let mut k = 0;
    let mut finished = false;
    while k <= n {
        if !finished {
            match lexer.next_token() {
                Ok(tok) => {
                    let (ctx, s, e) = lexer.span_mgr.get_span(tok.span);
                    assert!(ctx == span_ctx, "token span names the file being lexed");
                    assert!(s == pos, "a token starts where the previous one ended (tiling)");
                    assert!(lexer.start_pos == lexer.end_pos && lexer.end_pos == e, "the lexer continues right after the token");
                    if tok.kind == TokenKind::EndOfFile {
                        assert!(s == n && e == n, "end-of-file token sits at the end of the input");
                        finished = true;
                        kani::cover!(k >= 1, "end of file after at least one token");
                    } else {
                        assert!(e > s && e <= n, "a token is non-empty and inside the input");
                        kani::cover!(matches!(tok.kind, TokenKind::Whitespace | TokenKind::Comment), "whitespace or comment token");
                    }
                    pos = e;
                }
                Err(err) => {
                    let (ctx, s, e) = lexer.span_mgr.get_span(err_span(&err));
                    assert!(ctx == span_ctx && s <= e && e <= n, "a lexical error is located inside the input");
                    kani::cover!(true, "one located error");
                    finished = true;
                    core::mem::forget(err);
                }
            }
        }
        k += 1;
    }
    assert!(finished, "lexing ends with an end-of-file token or one located error");
}

macro_rules! c14_tiling_harness {
    ($name:ident, $n:expr, $unwind:expr) => {
        #[kani::proof]
        #[kani::unwind($unwind)]
        #[kani::stub(foldhash::seed::gen_per_hasher_seed, ks::stub_gen_per_hasher_seed)]
        #[kani::stub(foldhash::seed::global::GlobalSeed::init_slow, ks::stub_init_slow)]
        #[kani::stub(crate::arena::Arena::alloc, crate::arena::Arena::kstub_alloc)]
        #[kani::stub(crate::arena::Arena::alloc_slice, crate::arena::Arena::kstub_alloc_slice)]
        #[kani::stub(crate::arena::Arena::alloc_str, crate::arena::Arena::kstub_alloc_str)]
        fn $name() {
            let input: [u8; $n] = kani::any();
            check_tiling(&input);
        }
    };
}

// @harness id=c14_tiling_1 props=C14,C16:thorough,C01:thorough tier=quick cap=1500
// @desc Lexer::next_token repeated to the end on every one-byte input: one token covering the byte followed by an end-of-file token at offset 1, or one located error inside the input; no panic for any byte (every token start, every stray UTF-8 lead or continuation byte)
// @bound all 256 one-byte inputs in one query
// @funcs Lexer::next_token, Lexer::commit_token, SpanManager::intern_span
c14_tiling_harness!(c14_tiling_1, 1, 7);

// @harness id=c14_tiling_2 props=C14,C16,C01 tier=attempt cap=3600
// @desc Lexer::next_token repeated to the end on every byte string of length 2: the tokens (whitespace and comments included) tile the input exactly from byte 0 to an end-of-file token at the end, every token is non-empty, and a failure is one error whose span lies inside the input with start <= end; no panic (slice indexing, from_utf8().unwrap(), span assertions) for any bytes
// @bound all 65 536 two-byte inputs in one query (every pair of token starts, invalid UTF-8 included)
// @funcs Lexer::next_token, Lexer::lex_operator, Lexer::lex_ident, Lexer::lex_number, Lexer::lex_quoted_string, Lexer::lex_verbatim_string, Lexer::lex_text_block, Lexer::lex_single_line_comment, Lexer::lex_multi_line_comment, Lexer::eat_cont_any_char, Lexer::commit_token, SpanManager::intern_span
c14_tiling_harness!(c14_tiling_2, 2, 8);

// @harness id=c14_tiling_3 props=C14,C16 tier=attempt cap=5400 mem=40
// @desc as c14_tiling_2 for every byte string of length 3 (adds |||, 3-byte UTF-8 sequences, two-byte operators followed by another token)
// @bound all 2^24 three-byte inputs in one query
// @funcs Lexer::next_token
c14_tiling_harness!(c14_tiling_3, 3, 9);

// @harness id=c14_tiling_4 props=C14,C16 tier=attempt cap=3600
// @desc as c14_tiling_2 for every byte string of length 4
// @bound all 2^32 four-byte inputs in one query
// @funcs Lexer::next_token
c14_tiling_harness!(c14_tiling_4, 4, 10);

// @harness id=c14_must_fail props=C14 tier=quick cap=900 expect=fail
// @desc vacuity twin of the tiling harnesses
#[kani::proof]
#[kani::unwind(8)]
#[kani::stub(foldhash::seed::gen_per_hasher_seed, ks::stub_gen_per_hasher_seed)]
#[kani::stub(foldhash::seed::global::GlobalSeed::init_slow, ks::stub_init_slow)]
#[kani::stub(crate::arena::Arena::alloc, crate::arena::Arena::kstub_alloc)]
#[kani::stub(crate::arena::Arena::alloc_slice, crate::arena::Arena::kstub_alloc_slice)]
#[kani::stub(crate::arena::Arena::alloc_str, crate::arena::Arena::kstub_alloc_str)]
fn c14_must_fail() {
    let input: [u8; 1] = kani::any();
    check_tiling(&input);
    assert!(false, "reachability witness");
}

fn is_symbol(b: u8) -> bool {
    matches!(b, b'!' | b'$' | b':' | b'~' | b'+' | b'-' | b'&' | b'|' | b'^' | b'=' | b'<' | b'>' | b'*' | b'/' | b'%')
}

/// Operator table of the Jsonnet lexical grammar: spelling -> token.
fn known_operator(op: &[u8]) -> Option<STokenKind> {
    Some(match op {
        b":" => STokenKind::Colon,
        b"::" => STokenKind::ColonColon,
        b":::" => STokenKind::ColonColonColon,
        b"+:" => STokenKind::PlusColon,
        b"+::" => STokenKind::PlusColonColon,
        b"+:::" => STokenKind::PlusColonColonColon,
        b"=" => STokenKind::Eq,
        b"$" => STokenKind::Dollar,
        b"*" => STokenKind::Asterisk,
        b"/" => STokenKind::Slash,
        b"%" => STokenKind::Percent,
        b"+" => STokenKind::Plus,
        b"-" => STokenKind::Minus,
        b"<<" => STokenKind::LtLt,
        b">>" => STokenKind::GtGt,
        b"<" => STokenKind::Lt,
        b"<=" => STokenKind::LtEq,
        b">" => STokenKind::Gt,
        b">=" => STokenKind::GtEq,
        b"==" => STokenKind::EqEq,
        b"!=" => STokenKind::ExclamEq,
        b"&" => STokenKind::Amp,
        b"^" => STokenKind::Hat,
        b"|" => STokenKind::Pipe,
        b"&&" => STokenKind::AmpAmp,
        b"||" => STokenKind::PipePipe,
        b"!" => STokenKind::Exclam,
        b"~" => STokenKind::Tilde,
        _ => return None,
    })
}

// @harness id=c14_operator_munch props=C14,C01 tier=quick cap=900
// @desc Lexer::lex_operator (as entered from next_token after the first operator character) on every 4-byte input whose first byte is an operator character: the token is the maximal run of operator characters, cut before a `//`, `/*` or `|||` inside it, with trailing `+ - ~ ! $` given back (a multi-character operator cannot end in them); a run spelling one of the 28 operators of the grammar becomes that token, any other run an OtherOp token carrying exactly its text
// @bound inputs of 4 arbitrary bytes (the first an operator character that does not start a comment or text block)
// @funcs Lexer::lex_operator, Lexer::eat_slice, Lexer::eat_any_byte, Lexer::commit_token
#[kani::proof]
#[kani::unwind(7)]
#[kani::stub(foldhash::seed::gen_per_hasher_seed, ks::stub_gen_per_hasher_seed)]
#[kani::stub(foldhash::seed::global::GlobalSeed::init_slow, ks::stub_init_slow)]
#[kani::stub(crate::arena::Arena::alloc_str, crate::arena::Arena::kstub_alloc_str)]
fn c14_operator_munch() {
    let input: [u8; 4] = kani::any();
    kani::assume(is_symbol(input[0]));
    // the cases next_token handles itself before calling lex_operator
    kani::assume(!(input[0] == b'/' && (input[1] == b'/' || input[1] == b'*')));
    kani::assume(!(input[0] == b'|' && input[1] == b'|' && input[2] == b'|'));
    with_lexer!(lexer, &input, {
        let first = lexer.eat_any_byte();
        assert!(first == Some(input[0]), "first byte consumed by next_token");
        let tok = lexer.lex_operator();
        // reference: maximal munch
        let mut n = 1;
        let mut stopped = false;
        let mut i = 1;
        while i < 4 {
            if !stopped {
                let rest = &input[i..];
                if rest.starts_with(b"|||") || rest.starts_with(b"//") || rest.starts_with(b"/*") || !is_symbol(input[i]) {
                    stopped = true;
                } else {
                    n = i + 1;
                }
            }
            i += 1;
        }
        while n > 1 && matches!(input[n - 1], b'+' | b'-' | b'~' | b'!' | b'$') {
            n -= 1;
        }
        let (_, s, e) = lexer.span_mgr.get_span(tok.span);
        assert!(s == 0 && e == n, "operator token = maximal munch, trailing + - ~ ! $ given back");
        assert!(lexer.start_pos == n && lexer.end_pos == n, "lexing continues right after the operator");
        match known_operator(&input[..n]) {
            Some(kind) => assert!(tok.kind == TokenKind::Simple(kind), "operators of the grammar get their own token"),
            None => match tok.kind {
                TokenKind::OtherOp(text) => assert!(text.as_bytes() == &input[..n], "any other run is an OtherOp token with exactly its text"),
                _ => assert!(false, "OtherOp expected"),
            },
        }
        kani::cover!(n == 4, "four-character operator run");
        kani::cover!(n == 1 && is_symbol(input[1]) && is_symbol(input[2]), "trailing sign characters given back down to one character");
        kani::cover!(n == 2 && input[2] == b'/' && input[3] == b'/', "operator cut before a comment");
    });
}
