//! Verification model of the two std containers the crate uses through its
//! `FHashMap` / `FHashSet` aliases, and of `hashbrown::HashTable` as used by the
//! string interner.
//!
//! Why: one `HashMap::insert` + one `get` on the real hashbrown table costs
//! CBMC ~2 minutes of symbolic execution (SIMD group loads, bit-mask iteration,
//! table resize; measured with and without a constant hash function), which puts
//! every property that touches an object layer, an environment or a parameter
//! table out of reach. The containers are standard-library *environment*, not
//! rsjsonnet logic, so under `cfg(kani)` the overlay re-points the two aliases
//! (and `hashbrown::HashTable` in the interner) at these bounded association
//! lists.
//!
//! Representation: a fixed array of `CAP` optional slots, every loop runs over
//! the constant range `0..CAP` and every access uses a constant index (a `Vec`
//! with a symbolic length made CBMC's array post-processing explode: 23 M
//! variables for three insertions). Inserting a `CAP+1`-th key panics with
//! "kmap model capacity exceeded", which the runner reports as *inconclusive:
//! bound too small*, never as a pass or a violation.
//!
//! Contract of the model = the documented contract of the std containers:
//! at most one entry per key (by `Eq`), `insert` replaces and returns the old
//! value, lookups by `Borrow`ed key, the `Entry` API. The one observable
//! difference: iteration order here is slot (insertion) order, whereas the real
//! containers iterate in an unspecified order. Code whose *result* depended on
//! that order would be a defect this model cannot expose; that is part of the
//! stated trusted base of every harness.

use std::borrow::Borrow;

pub(crate) const CAP: usize = 4;

fn empty_slots<T>() -> [Option<T>; CAP] {
    [None, None, None, None]
}

#[derive(Clone)]
pub(crate) struct VecMap<K, V> {
    slots: [Option<(K, V)>; CAP],
}

impl<K, V> Default for VecMap<K, V> {
    #[inline]
    fn default() -> Self {
        Self { slots: empty_slots() }
    }
}

impl<K: std::fmt::Debug, V: std::fmt::Debug> std::fmt::Debug for VecMap<K, V> {
    fn fmt(&self, f: &mut std::fmt::Formatter<'_>) -> std::fmt::Result {
        f.write_str("VecMap")
    }
}

fn split<K, V>(slot: &Option<(K, V)>) -> Option<(&K, &V)> {
    match slot {
        Some((k, v)) => Some((k, v)),
        None => None,
    }
}

impl<K: Eq, V> VecMap<K, V> {
    fn position<Q: ?Sized + Eq>(&self, k: &Q) -> Option<usize>
    where
        K: Borrow<Q>,
    {
        let mut i = 0;
        while i < CAP {
            if let Some((k2, _)) = &self.slots[i] {
                if k2.borrow() == k {
                    return Some(i);
                }
            }
            i += 1;
        }
        None
    }

    fn free_slot(&self) -> usize {
        let mut i = 0;
        while i < CAP {
            if self.slots[i].is_none() {
                return i;
            }
            i += 1;
        }
        panic!("kmap model capacity exceeded");
    }

    #[inline]
    pub(crate) fn with_capacity(_n: usize) -> Self {
        Self::default()
    }

    /// Harness-only constructor: the slots are given explicitly, so that a symbolic *presence* of a key
    /// is an `Option` discriminant at a constant index (the caller guarantees distinct keys).
    #[inline]
    pub(crate) fn kani_from_slots(slots: [Option<(K, V)>; CAP]) -> Self {
        Self { slots }
    }

    pub(crate) fn len(&self) -> usize {
        let mut n = 0;
        let mut i = 0;
        while i < CAP {
            if self.slots[i].is_some() {
                n += 1;
            }
            i += 1;
        }
        n
    }

    #[inline]
    pub(crate) fn is_empty(&self) -> bool {
        self.len() == 0
    }

    pub(crate) fn get<Q: ?Sized + Eq>(&self, k: &Q) -> Option<&V>
    where
        K: Borrow<Q>,
    {
        match self.position(k) {
            Some(i) => match &self.slots[i] {
                Some((_, v)) => Some(v),
                None => None,
            },
            None => None,
        }
    }

    pub(crate) fn get_mut<Q: ?Sized + Eq>(&mut self, k: &Q) -> Option<&mut V>
    where
        K: Borrow<Q>,
    {
        match self.position(k) {
            Some(i) => match &mut self.slots[i] {
                Some((_, v)) => Some(v),
                None => None,
            },
            None => None,
        }
    }

    pub(crate) fn contains_key<Q: ?Sized + Eq>(&self, k: &Q) -> bool
    where
        K: Borrow<Q>,
    {
        self.position(k).is_some()
    }

    pub(crate) fn insert(&mut self, k: K, v: V) -> Option<V> {
        match self.position(&k) {
            Some(i) => match &mut self.slots[i] {
                Some((_, old)) => Some(std::mem::replace(old, v)),
                None => None,
            },
            None => {
                let i = self.free_slot();
                self.slots[i] = Some((k, v));
                None
            }
        }
    }

    pub(crate) fn remove<Q: ?Sized + Eq>(&mut self, k: &Q) -> Option<V>
    where
        K: Borrow<Q>,
    {
        match self.position(k) {
            Some(i) => match self.slots[i].take() {
                Some((_, v)) => Some(v),
                None => None,
            },
            None => None,
        }
    }

    pub(crate) fn entry(&mut self, key: K) -> Entry<'_, K, V> {
        match self.position(&key) {
            Some(idx) => Entry::Occupied(OccupiedEntry { map: self, idx, key }),
            None => Entry::Vacant(VacantEntry { map: self, key }),
        }
    }

    #[inline]
    pub(crate) fn iter(&self) -> impl DoubleEndedIterator<Item = (&K, &V)> + Clone + '_ {
        self.slots.iter().filter_map(split)
    }

    #[inline]
    pub(crate) fn keys(&self) -> impl DoubleEndedIterator<Item = &K> + Clone + '_ {
        self.slots.iter().filter_map(|s| match s {
            Some((k, _)) => Some(k),
            None => None,
        })
    }

    #[inline]
    pub(crate) fn values(&self) -> impl DoubleEndedIterator<Item = &V> + Clone + '_ {
        self.slots.iter().filter_map(|s| match s {
            Some((_, v)) => Some(v),
            None => None,
        })
    }

    pub(crate) fn clear(&mut self) {
        self.slots = empty_slots();
    }
}

impl<K: Eq, V> FromIterator<(K, V)> for VecMap<K, V> {
    fn from_iter<I: IntoIterator<Item = (K, V)>>(iter: I) -> Self {
        let mut m = Self::default();
        for (k, v) in iter {
            m.insert(k, v);
        }
        m
    }
}

impl<K: Eq, V> Extend<(K, V)> for VecMap<K, V> {
    fn extend<I: IntoIterator<Item = (K, V)>>(&mut self, iter: I) {
        for (k, v) in iter {
            self.insert(k, v);
        }
    }
}

impl<K, V> IntoIterator for VecMap<K, V> {
    type Item = (K, V);
    type IntoIter = std::iter::Flatten<std::array::IntoIter<Option<(K, V)>, CAP>>;

    fn into_iter(self) -> Self::IntoIter {
        self.slots.into_iter().flatten()
    }
}

impl<'a, K, V> IntoIterator for &'a VecMap<K, V> {
    type Item = (&'a K, &'a V);
    type IntoIter =
        std::iter::FilterMap<std::slice::Iter<'a, Option<(K, V)>>, fn(&'a Option<(K, V)>) -> Option<(&'a K, &'a V)>>;

    fn into_iter(self) -> Self::IntoIter {
        self.slots
            .iter()
            .filter_map(split as fn(&'a Option<(K, V)>) -> Option<(&'a K, &'a V)>)
    }
}

pub(crate) enum Entry<'a, K, V> {
    Occupied(OccupiedEntry<'a, K, V>),
    Vacant(VacantEntry<'a, K, V>),
}

pub(crate) struct OccupiedEntry<'a, K, V> {
    map: &'a mut VecMap<K, V>,
    idx: usize,
    key: K,
}

pub(crate) struct VacantEntry<'a, K, V> {
    map: &'a mut VecMap<K, V>,
    key: K,
}

impl<'a, K, V> OccupiedEntry<'a, K, V> {
    #[inline]
    pub(crate) fn key(&self) -> &K {
        &self.key
    }

    #[inline]
    pub(crate) fn get(&self) -> &V {
        match &self.map.slots[self.idx] {
            Some((_, v)) => v,
            None => unreachable!(),
        }
    }

    #[inline]
    pub(crate) fn get_mut(&mut self) -> &mut V {
        match &mut self.map.slots[self.idx] {
            Some((_, v)) => v,
            None => unreachable!(),
        }
    }

    #[inline]
    pub(crate) fn into_mut(self) -> &'a mut V {
        match &mut self.map.slots[self.idx] {
            Some((_, v)) => v,
            None => unreachable!(),
        }
    }

    #[inline]
    pub(crate) fn insert(&mut self, v: V) -> V {
        std::mem::replace(self.get_mut(), v)
    }
}

impl<'a, K, V> VacantEntry<'a, K, V> {
    #[inline]
    pub(crate) fn key(&self) -> &K {
        &self.key
    }

    pub(crate) fn insert(self, v: V) -> &'a mut V {
        let mut i = 0;
        while i < CAP {
            if self.map.slots[i].is_none() {
                break;
            }
            i += 1;
        }
        if i == CAP {
            panic!("kmap model capacity exceeded");
        }
        self.map.slots[i] = Some((self.key, v));
        match &mut self.map.slots[i] {
            Some((_, v)) => v,
            None => unreachable!(),
        }
    }
}

impl<'a, K, V> Entry<'a, K, V> {
    pub(crate) fn or_insert(self, v: V) -> &'a mut V {
        match self {
            Entry::Occupied(e) => e.into_mut(),
            Entry::Vacant(e) => e.insert(v),
        }
    }

    pub(crate) fn or_insert_with(self, f: impl FnOnce() -> V) -> &'a mut V {
        match self {
            Entry::Occupied(e) => e.into_mut(),
            Entry::Vacant(e) => e.insert(f()),
        }
    }
}

// ---------------------------------------------------------------- set

#[derive(Clone)]
pub(crate) struct VecSet<T> {
    slots: [Option<T>; CAP],
}

impl<T> Default for VecSet<T> {
    #[inline]
    fn default() -> Self {
        Self { slots: empty_slots() }
    }
}

impl<T: Eq> VecSet<T> {
    fn position<Q: ?Sized + Eq>(&self, k: &Q) -> Option<usize>
    where
        T: Borrow<Q>,
    {
        let mut i = 0;
        while i < CAP {
            if let Some(t) = &self.slots[i] {
                if t.borrow() == k {
                    return Some(i);
                }
            }
            i += 1;
        }
        None
    }

    pub(crate) fn len(&self) -> usize {
        let mut n = 0;
        let mut i = 0;
        while i < CAP {
            if self.slots[i].is_some() {
                n += 1;
            }
            i += 1;
        }
        n
    }

    #[inline]
    pub(crate) fn is_empty(&self) -> bool {
        self.len() == 0
    }

    pub(crate) fn contains<Q: ?Sized + Eq>(&self, k: &Q) -> bool
    where
        T: Borrow<Q>,
    {
        self.position(k).is_some()
    }

    pub(crate) fn insert(&mut self, t: T) -> bool {
        if self.position(&t).is_some() {
            return false;
        }
        let mut i = 0;
        while i < CAP {
            if self.slots[i].is_none() {
                self.slots[i] = Some(t);
                return true;
            }
            i += 1;
        }
        panic!("kmap model capacity exceeded");
    }

    pub(crate) fn remove<Q: ?Sized + Eq>(&mut self, k: &Q) -> bool
    where
        T: Borrow<Q>,
    {
        match self.position(k) {
            Some(i) => {
                self.slots[i] = None;
                true
            }
            None => false,
        }
    }

    #[inline]
    pub(crate) fn iter(&self) -> impl DoubleEndedIterator<Item = &T> + Clone + '_ {
        self.slots.iter().filter_map(|s| s.as_ref())
    }
}

impl<T: Eq> FromIterator<T> for VecSet<T> {
    fn from_iter<I: IntoIterator<Item = T>>(iter: I) -> Self {
        let mut s = Self::default();
        for t in iter {
            s.insert(t);
        }
        s
    }
}

impl<T: Eq> Extend<T> for VecSet<T> {
    fn extend<I: IntoIterator<Item = T>>(&mut self, iter: I) {
        for t in iter {
            self.insert(t);
        }
    }
}

impl<T> IntoIterator for VecSet<T> {
    type Item = T;
    type IntoIter = std::iter::Flatten<std::array::IntoIter<Option<T>, CAP>>;

    fn into_iter(self) -> Self::IntoIter {
        self.slots.into_iter().flatten()
    }
}

impl<'a, T> IntoIterator for &'a VecSet<T> {
    type Item = &'a T;
    type IntoIter = std::iter::Flatten<std::slice::Iter<'a, Option<T>>>;

    fn into_iter(self) -> Self::IntoIter {
        self.slots.iter().flatten()
    }
}

// ---------------------------------------------------------------- hashbrown::HashTable (interner)

/// Model of `hashbrown::HashTable<T>` restricted to the two operations the
/// interner uses; the caller-supplied hash values are ignored.
pub(crate) struct KHashTable<T> {
    slots: [Option<T>; CAP],
}

impl<T> KHashTable<T> {
    #[inline]
    pub(crate) fn new() -> Self {
        Self { slots: empty_slots() }
    }

    pub(crate) fn find(&self, _hash: u64, mut eq: impl FnMut(&T) -> bool) -> Option<&T> {
        let mut i = 0;
        while i < CAP {
            if let Some(t) = &self.slots[i] {
                if eq(t) {
                    return Some(t);
                }
            }
            i += 1;
        }
        None
    }

    pub(crate) fn entry(
        &mut self,
        _hash: u64,
        mut eq: impl FnMut(&T) -> bool,
        _hasher: impl Fn(&T) -> u64,
    ) -> table::Entry<'_, T> {
        let mut i = 0;
        while i < CAP {
            if let Some(t) = &self.slots[i] {
                if eq(t) {
                    return table::Entry::Occupied(table::OccupiedEntry { table: self, idx: i });
                }
            }
            i += 1;
        }
        table::Entry::Vacant(table::VacantEntry { table: self })
    }
}

pub(crate) mod table {
    use super::{CAP, KHashTable};

    pub(crate) enum Entry<'a, T> {
        Occupied(OccupiedEntry<'a, T>),
        Vacant(VacantEntry<'a, T>),
    }

    pub(crate) struct OccupiedEntry<'a, T> {
        pub(super) table: &'a mut KHashTable<T>,
        pub(super) idx: usize,
    }

    pub(crate) struct VacantEntry<'a, T> {
        pub(super) table: &'a mut KHashTable<T>,
    }

    impl<'a, T> OccupiedEntry<'a, T> {
        #[inline]
        pub(crate) fn get(&self) -> &T {
            match &self.table.slots[self.idx] {
                Some(t) => t,
                None => unreachable!(),
            }
        }
    }

    impl<'a, T> VacantEntry<'a, T> {
        pub(crate) fn insert(self, value: T) -> OccupiedEntry<'a, T> {
            let mut i = 0;
            while i < CAP {
                if self.table.slots[i].is_none() {
                    break;
                }
                i += 1;
            }
            if i == CAP {
                panic!("kmap model capacity exceeded");
            }
            self.table.slots[i] = Some(value);
            OccupiedEntry { table: self.table, idx: i }
        }
    }
}

// ---------------------------------------------------------------- std::collections::BTreeMap (get_fields_order)

/// Model of `std::collections::BTreeMap` restricted to what `ObjectData::get_fields_order` uses
/// (`new`, `extend`, `entry`, by-value iteration in ascending key order). Same bounded-slot
/// representation; ordered iteration is done by repeated minimum selection.
pub(crate) struct KBTreeMap<K, V> {
    slots: [Option<(K, V)>; CAP],
}

impl<K: Ord, V> KBTreeMap<K, V> {
    #[inline]
    pub(crate) fn new() -> Self {
        Self { slots: empty_slots() }
    }

    fn position(&self, k: &K) -> Option<usize> {
        let mut i = 0;
        while i < CAP {
            if let Some((k2, _)) = &self.slots[i] {
                if k2 == k {
                    return Some(i);
                }
            }
            i += 1;
        }
        None
    }

    pub(crate) fn insert(&mut self, k: K, v: V) -> Option<V> {
        match self.position(&k) {
            Some(i) => match &mut self.slots[i] {
                Some((_, old)) => Some(std::mem::replace(old, v)),
                None => None,
            },
            None => {
                let mut i = 0;
                while i < CAP {
                    if self.slots[i].is_none() {
                        self.slots[i] = Some((k, v));
                        return None;
                    }
                    i += 1;
                }
                panic!("kmap model capacity exceeded");
            }
        }
    }

    pub(crate) fn entry(&mut self, key: K) -> btree::Entry<'_, K, V> {
        match self.position(&key) {
            Some(idx) => btree::Entry::Occupied(btree::OccupiedEntry { map: self, idx }),
            None => btree::Entry::Vacant(btree::VacantEntry { map: self, key }),
        }
    }
}

impl<K: Ord, V> Extend<(K, V)> for KBTreeMap<K, V> {
    fn extend<I: IntoIterator<Item = (K, V)>>(&mut self, iter: I) {
        for (k, v) in iter {
            self.insert(k, v);
        }
    }
}

pub(crate) struct KBTreeIntoIter<K, V> {
    slots: [Option<(K, V)>; CAP],
}

impl<K: Ord, V> Iterator for KBTreeIntoIter<K, V> {
    type Item = (K, V);

    fn next(&mut self) -> Option<(K, V)> {
        let mut best: Option<usize> = None;
        let mut i = 0;
        while i < CAP {
            if let Some((k, _)) = &self.slots[i] {
                let better = match best {
                    None => true,
                    Some(b) => match &self.slots[b] {
                        Some((kb, _)) => k < kb,
                        None => true,
                    },
                };
                if better {
                    best = Some(i);
                }
            }
            i += 1;
        }
        match best {
            Some(b) => self.slots[b].take(),
            None => None,
        }
    }
}

impl<K: Ord, V> IntoIterator for KBTreeMap<K, V> {
    type Item = (K, V);
    type IntoIter = KBTreeIntoIter<K, V>;

    fn into_iter(self) -> Self::IntoIter {
        KBTreeIntoIter { slots: self.slots }
    }
}

pub(crate) mod btree {
    use super::{CAP, KBTreeMap};

    pub(crate) enum Entry<'a, K, V> {
        Occupied(OccupiedEntry<'a, K, V>),
        Vacant(VacantEntry<'a, K, V>),
    }

    pub(crate) struct OccupiedEntry<'a, K, V> {
        pub(super) map: &'a mut KBTreeMap<K, V>,
        pub(super) idx: usize,
    }

    pub(crate) struct VacantEntry<'a, K, V> {
        pub(super) map: &'a mut KBTreeMap<K, V>,
        pub(super) key: K,
    }

    impl<'a, K, V> OccupiedEntry<'a, K, V> {
        #[inline]
        pub(crate) fn get(&self) -> &V {
            match &self.map.slots[self.idx] {
                Some((_, v)) => v,
                None => unreachable!(),
            }
        }

        #[inline]
        pub(crate) fn get_mut(&mut self) -> &mut V {
            match &mut self.map.slots[self.idx] {
                Some((_, v)) => v,
                None => unreachable!(),
            }
        }
    }

    impl<'a, K, V> VacantEntry<'a, K, V> {
        pub(crate) fn insert(self, v: V) -> &'a mut V {
            let mut i = 0;
            while i < CAP {
                if self.map.slots[i].is_none() {
                    break;
                }
                i += 1;
            }
            if i == CAP {
                panic!("kmap model capacity exceeded");
            }
            self.map.slots[i] = Some((self.key, v));
            match &mut self.map.slots[i] {
                Some((_, v)) => v,
                None => unreachable!(),
            }
        }
    }
}
