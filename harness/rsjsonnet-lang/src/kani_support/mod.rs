//! Verification-only support code shared by all Kani harness modules.
//! Injected by /verif/tools/overlay.py as `#[cfg(kani)] mod kani_support;`.
//! Every stub defined here is part of the claim of the harnesses that use it
//! (DESIGN.md section 3).

use crate::arena::Arena;

pub(crate) mod kmap;

/// Stub for `foldhash::seed::gen_per_hasher_seed`: the real one reads the stack
/// address and a thread-local. Hash seeds are a constant under verification; no
/// property depends on hash values, only on map semantics.
pub(crate) fn stub_gen_per_hasher_seed() -> u64 {
    0x9E37_79B9_7F4A_7C15
}

/// Stub for `foldhash::seed::global::GlobalSeed::init_slow` (clock, ASLR and a
/// spin lock): the global seed keeps its static initial value.
pub(crate) fn stub_init_slow() {}

/// Stubs for the crate's own thin wrappers around `bumpalo` (pointer arithmetic
/// of the bump allocator explodes after the first allocation). Placement is
/// modelled by separate leaked heap objects; lifetime semantics are unchanged.
impl Arena {
    pub(crate) fn kstub_alloc<T: Copy>(&self, value: T) -> &T {
        Box::leak(Box::new(value))
    }

    pub(crate) fn kstub_alloc_slice<T: Copy>(&self, slice: &[T]) -> &[T] {
        Box::leak(slice.to_vec().into_boxed_slice())
    }

    pub(crate) fn kstub_alloc_str(&self, value: &str) -> &str {
        Box::leak(String::from(value).into_boxed_str())
    }
}

/// Stub for `alloc::fmt::format`: error paths build their messages eagerly with
/// `format!`; message *texts* are not the subject of any harness that uses this.
pub(crate) fn stub_fmt_format(_args: core::fmt::Arguments<'_>) -> String {
    String::new()
}

/// Stubs for the libm-backed `f64` methods (`exp ln log2 log10 sqrt sin cos tan asin acos atan atan2 hypot
/// powf`): the result is an *arbitrary* double. Kani does not support most of the foreign libm calls, and
/// CBMC's models of the others are approximations; with these stubs every verdict about a numeric builtin
/// holds whatever the host libm returns (NaN and infinities included).
pub(crate) fn stub_libm1(_x: f64) -> f64 {
    kani::any()
}

pub(crate) fn stub_libm2(_x: f64, _y: f64) -> f64 {
    kani::any()
}

/// Value channel for `stub_fmt_write_u_escape` (set by the harness before the call).
pub(crate) static ESC_VALUE: core::sync::atomic::AtomicU32 = core::sync::atomic::AtomicU32::new(0);

fn hex_digit(n: u32) -> u8 {
    let n = (n & 0xF) as u8;
    if n < 10 { b'0' + n } else { b'a' + (n - 10) }
}

/// Stub for `core::fmt::write` in the JSON-escaper harnesses: the only formatting the escaper does is
/// `write!(result, "\\u{:04x}", chr as u32)`. `core::fmt`'s integer formatting machinery (trusted std, and
/// not decidable by CBMC within the caps on a symbolic operand) is replaced by a direct rendering of the
/// value the harness recorded in `ESC_VALUE`: backslash, `u`, four lowercase hex digits.
pub(crate) fn stub_fmt_write_u_escape(output: &mut dyn core::fmt::Write, _args: core::fmt::Arguments<'_>) -> core::fmt::Result {
    let v = ESC_VALUE.load(core::sync::atomic::Ordering::Relaxed);
    // written character by character: `str::from_utf8` on symbolic bytes would cost a validation loop per path
    output.write_str("\\u")?;
    output.write_char(hex_digit(v >> 12) as char)?;
    output.write_char(hex_digit(v >> 8) as char)?;
    output.write_char(hex_digit(v >> 4) as char)?;
    output.write_char(hex_digit(v) as char)
}

/// Stub for `core::fmt::write` where the formatted text is not the subject: nothing is appended.
pub(crate) fn stub_fmt_write_nothing(_output: &mut dyn core::fmt::Write, _args: core::fmt::Arguments<'_>) -> core::fmt::Result {
    Ok(())
}

/// Stub for `String::reserve`: a BOUNDED model of growth. If the spare capacity suffices nothing happens; otherwise the
/// string is moved into a fresh buffer of the constant capacity `STRING_MODEL_CAP` (never a symbolic size: CBMC's array
/// post-processing does not survive `reserve(n)` with a symbolic `n`). A string that would outgrow the model fails the
/// harness ("string model capacity exceeded" = inconclusive, bound too small). NOTE: `String::push` of the pinned
/// toolchain calls `self.reserve(ch.len_utf8())` and then writes WITHOUT a capacity check, so a no-op stub (as used
/// in the first build session) makes `push` write through a dangling pointer; this version keeps `push` sound.
pub(crate) const STRING_MODEL_CAP: usize = 48;

pub(crate) fn stub_string_reserve(s: &mut String, additional: usize) {
    if s.capacity() - s.len() >= additional {
        return;
    }
    assert!(s.len() <= STRING_MODEL_CAP && additional <= STRING_MODEL_CAP - s.len(), "string model capacity exceeded");
    let old = core::mem::replace(s, String::with_capacity(STRING_MODEL_CAP));
    for c in old.chars() {
        s.push(c);
    }
}

/// Stub for `String::push_str`: character-by-character `push` (same result; avoids the `reserve(len)` of
/// `Vec::extend_from_slice`, see `stub_string_reserve`).
pub(crate) fn stub_string_push_str(s: &mut String, t: &str) {
    for c in t.chars() {
        s.push(c);
    }
}

/// Stub for `<f64 as Display>::fmt` (reached through `f64::to_string()` when an error message quotes a number, e.g.
/// `NumericIndexIsNotValid { index: index.to_string() }`): Rust's shortest-representation printer (grisu / dragon
/// bignum loops) is trusted host-library code and is never the subject; nothing is written.
pub(crate) fn stub_f64_display(_x: &f64, _f: &mut core::fmt::Formatter<'_>) -> core::fmt::Result {
    Ok(())
}

/// Stubs for `String::push` / `String::push_str` / `str::repeat` in harnesses whose subject is NOT the text a
/// manifester produces (the frame discipline of its nesting steps): nothing is appended. The output buffer of a
/// manifester lives on `string_stack` (a heap buffer), where its length and capacity are not constants for the
/// symbolic executor, so every real `push` explores the growth path with a symbolic allocation size.
pub(crate) fn stub_string_push_nothing(_s: &mut String, _c: char) {}

pub(crate) fn stub_string_push_str_nothing(_s: &mut String, _t: &str) {}

pub(crate) fn stub_str_repeat_empty(_s: &str, _n: usize) -> String {
    String::new()
}

/// Stub for `core::str::count::count_chars` (behind `str::chars().count()`): the same function - the number of
/// bytes that are not UTF-8 continuation bytes - as one plain loop. The library version chooses between a general
/// loop and a word-at-a-time fast path on `len < 32`, and symbolic execution walks the fast path's alignment
/// arithmetic even for short strings.
pub(crate) fn stub_count_chars(s: &str) -> usize {
    let b = s.as_bytes();
    let mut n = 0;
    let mut i = 0;
    while i < b.len() {
        if (b[i] as i8) >= -0x40 {
            n += 1;
        }
        i += 1;
    }
    n
}
