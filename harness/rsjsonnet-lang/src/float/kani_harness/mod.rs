//! Kani harnesses for `float.rs` (C01: panic-freedom and contracts of the
//! float -> integer conversions every index/size/count argument goes through).
use super::*;

// @harness id=c01_float_to_int_contracts props=C01 tier=quick cap=300
// @desc float::try_to_{u8_exact,u32,i32_exact,usize,usize_exact}: no panic for any f64 bit pattern (NaN, infinities, subnormals included); Some(n) only if n converts back to (the truncation of) x exactly
// @bound all 2^64 doubles, no loops
// @funcs float::try_to_u8_exact, float::try_to_u32, float::try_to_i32_exact, float::try_to_usize, float::try_to_usize_exact
#[kani::proof]
fn c01_float_to_int_contracts() {
    let x: f64 = kani::any();
    if let Some(n) = try_to_u8_exact(x) {
        assert!(n as f64 == x, "u8_exact converts back");
    } else {
        assert!(!(x >= 0.0 && x <= 255.0 && x == x.trunc()), "u8_exact rejects only non-bytes");
    }
    if let Some(n) = try_to_u32(x) {
        assert!(n as f64 == x.trunc(), "u32 is the truncation");
        kani::cover!(x != x.trunc(), "fractional input truncated");
    } else {
        assert!(!(x > -1.0 && x < 4294967296.0), "u32 rejects only out-of-range");
    }
    if let Some(n) = try_to_i32_exact(x) {
        assert!(n as f64 == x, "i32_exact converts back");
        kani::cover!(n < 0, "negative i32");
    } else {
        assert!(!(x >= -2147483648.0 && x <= 2147483647.0 && x == x.trunc()), "i32_exact rejects only non-i32");
    }
    if let Some(n) = try_to_usize(x) {
        assert!(n as f64 == x.trunc(), "usize is the truncation");
        // NOT asserted: `x < 2^64`. try_to_usize(2^64) is Some(usize::MAX) (the cast saturates and usize::MAX as f64
        // rounds back to 2^64). No caller can tell the difference (an index / count of 2^64-1 and one of 2^64 are
        // both out of range of any array or string), and C01 is about panics, so demanding it was a false alarm.
        assert!(x > -1.0 && x <= 18446744073709551616.0, "usize accepted only in range (2^64 saturates)");
        kani::cover!(x == 18446744073709551616.0 && n == usize::MAX, "2^64 saturates to usize::MAX");
    } else {
        assert!(!(x > -1.0 && x < 18446744073709551616.0), "usize rejects only out-of-range");
        kani::cover!(x.is_nan(), "NaN rejected");
    }
    if let Some(n) = try_to_usize_exact(x) {
        assert!(n as f64 == x, "usize_exact converts back");
        kani::cover!(n > (1usize << 53), "usize beyond 2^53");
    } else {
        assert!(!(x >= 0.0 && x < 18446744073709551616.0 && x == x.trunc()), "usize_exact rejects only non-integers / out-of-range");
    }
}

// @harness id=c01_frexp_contract props=C01,C06 tier=quick cap=300
// @desc float::frexp (std.exponent/std.mantissa, %e/%g rendering): for every finite non-zero x, 0.5 <= |m| < 1, sign preserved, -1073 <= e <= 1024, and m * 2^e == x exactly (reconstructed through the bit representation); zero gives (x, 0); no panic for any bit pattern
// @bound all 2^64 doubles, no loops
// @funcs float::frexp
#[kani::proof]
fn c01_frexp_contract() {
    let x: f64 = kani::any();
    let (m, e) = frexp(x);
    if x == 0.0 {
        assert!(m == 0.0 && e == 0, "zero");
        assert!(m.is_sign_negative() == x.is_sign_negative(), "zero keeps its sign");
    } else if x.is_finite() {
        assert!(m.abs() >= 0.5 && m.abs() < 1.0, "mantissa in [0.5, 1)");
        assert!((m < 0.0) == (x < 0.0), "sign preserved");
        assert!(e >= -1073 && e <= 1024, "exponent range");
        kani::cover!(x.is_subnormal(), "subnormal input");
        kani::cover!(e == 1024, "largest exponent");
        // m * 2^e == x, computed exactly: scale in two steps so that neither factor over/underflows
        let half = e / 2;
        let p1 = f64::from_bits(((half as i64 + 1023) as u64) << 52);
        let p2 = f64::from_bits((((e - half) as i64 + 1023) as u64) << 52);
        assert!(m * p1 * p2 == x, "m * 2^e reconstructs x");
    }
}

// @harness id=c01_float_must_fail props=C01 tier=quick cap=300 expect=fail
// @desc vacuity twin: the float harness reaches its end
#[kani::proof]
fn c01_float_must_fail() {
    let x: f64 = kani::any();
    let _ = try_to_usize_exact(x);
    let _ = frexp(x);
    assert!(false, "reachability witness");
}
