#[cfg(kani)]
impl SpanContextId {
    /// Verification-only: the id of the first registered context.
    pub(crate) fn kani_zero() -> Self {
        SpanContextId(0)
    }
}
