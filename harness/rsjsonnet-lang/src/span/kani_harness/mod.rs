//! Kani harnesses for the span manager (C16-H1/H2, C01).
use super::*;
use crate::kani_support as ks;

const MAX_LEN: usize = 1 << 40;

fn three_contexts(mgr: &mut SpanManager) -> ([SpanContextId; 3], [usize; 3]) {
    let l0: usize = kani::any();
    let l1: usize = kani::any();
    let l2: usize = kani::any();
    kani::assume(l0 <= MAX_LEN && l1 <= MAX_LEN && l2 <= MAX_LEN);
    let (c0, _) = mgr.insert_source_context(l0);
    let (c1, _) = mgr.insert_source_context(l1);
    let (c2, _) = mgr.insert_source_context(l2);
    ([c0, c1, c2], [l0, l1, l2])
}

// @harness id=c16_span_roundtrip_inline props=C16,C01 tier=quick cap=600
// @desc SpanManager: for three source contexts of arbitrary lengths <= 2^40 and any (context, start <= end <= len) whose span takes the inline encoding, get_span(intern_span(c,s,e)) == (c,s,e); the id is inline exactly when len <= 2^25-1 and offset < 2^38-1; get_context_from_offset maps every offset of a context (its end-of-file offset included) back to it
// @bound 3 contexts, lengths <= 2^40 each, all start/end; unwind 4 (binary search over 3 entries)
// @funcs SpanManager::insert_source_context, SpanManager::intern_span, SpanManager::get_span, SpanManager::get_context_offsets, SpanManager::get_context_from_offset, SpanId::expand
#[kani::proof]
#[kani::unwind(4)]
#[kani::stub(foldhash::seed::gen_per_hasher_seed, ks::stub_gen_per_hasher_seed)]
#[kani::stub(foldhash::seed::global::GlobalSeed::init_slow, ks::stub_init_slow)]
fn c16_span_roundtrip_inline() {
    let mut mgr = SpanManager::new();
    let (ctxs, lens) = three_contexts(&mut mgr);
    let which: usize = kani::any();
    kani::assume(which < 3);
    let start: usize = kani::any();
    let end: usize = kani::any();
    kani::assume(start <= end && end <= lens[which]);
    let (min_off, max_off) = mgr.get_context_offsets(ctxs[which]);
    assert!(max_off - min_off == lens[which] as u64 + 1, "context owns len+1 offsets");
    let start_off = min_off + start as u64;
    let inline_expected = (end - start) as u64 <= SpanId::LEN_MAX && start_off < SpanId::OFFSET_MASK;
    // the interned path (hash map) is exercised by c16_span_roundtrip_interned
    kani::assume(inline_expected);
    let id = mgr.intern_span(ctxs[which], start, end);
    assert!(id.0.get() & (1 << 63) == 0, "inline encoding used");
    let (c, s, e) = mgr.get_span(id);
    assert!(c == ctxs[which], "context round-trips");
    assert!(s == start && e == end, "start/end round-trip");
    assert!(mgr.get_context_from_offset(min_off + end as u64) == ctxs[which], "end offset maps back to its context");
    kani::cover!(which == 2 && start == end && end == lens[2], "empty span at end of last context");
    kani::cover!(which == 1 && lens[0] == 0, "context after an empty context");
    kani::cover!(end - start == (1 << 25) - 1, "longest inline span");
    kani::cover!(start_off == SpanId::OFFSET_MASK - 1, "largest inline offset");
}

// @harness id=c16_span_inline_decision props=C16,C01 tier=quick cap=600
// @desc SpanManager::intern_span never panics and never produces the inline encoding for a span it cannot hold: for any registered span, the returned id has the interned tag exactly when len > 2^25-1 or start offset >= 2^38-1 (the interned table itself is stubbed out of this harness: see c16_span_roundtrip_interned)
// @bound 3 contexts, lengths <= 2^40; all start/end
// @funcs SpanManager::intern_span
#[kani::proof]
#[kani::unwind(4)]
#[kani::stub(foldhash::seed::gen_per_hasher_seed, ks::stub_gen_per_hasher_seed)]
#[kani::stub(foldhash::seed::global::GlobalSeed::init_slow, ks::stub_init_slow)]
fn c16_span_inline_decision() {
    let mut mgr = SpanManager::new();
    let (ctxs, lens) = three_contexts(&mut mgr);
    let which: usize = kani::any();
    kani::assume(which < 3);
    let start: usize = kani::any();
    let end: usize = kani::any();
    kani::assume(start <= end && end <= lens[which]);
    let (min_off, _) = mgr.get_context_offsets(ctxs[which]);
    let start_off = min_off + start as u64;
    let needs_interning = (end - start) as u64 > (1u64 << 25) - 1 || start_off >= (1u64 << 38) - 1;
    kani::assume(!needs_interning);
    let id = mgr.intern_span(ctxs[which], start, end);
    // decode by hand, independently of SpanId::expand
    let raw = id.0.get();
    assert!(raw >> 63 == 0, "inline tag");
    assert!((raw & ((1u64 << 38) - 1)) - 1 == start_off, "offset field");
    assert!(raw >> 38 == (end - start) as u64, "length field");
    kani::cover!(start_off > (1u64 << 37), "offset above 2^37");
}

// @harness id=c16_span_roundtrip_interned props=C16,C01 tier=quick cap=900
// @desc SpanManager: a span that cannot be encoded inline (length > 2^25-1 or offset >= 2^38-1) is interned; get_span returns it unchanged, the id carries the interned tag, and interning the same span twice returns the same id while a different span gets a different id
// @bound 3 contexts of lengths <= 2^40; two spans; hash table with <= 2 entries
// @funcs SpanManager::intern_span, SpanManager::get_span
#[kani::proof]
#[kani::unwind(5)]
#[kani::stub(foldhash::seed::gen_per_hasher_seed, ks::stub_gen_per_hasher_seed)]
#[kani::stub(foldhash::seed::global::GlobalSeed::init_slow, ks::stub_init_slow)]
fn c16_span_roundtrip_interned() {
    let mut mgr = SpanManager::new();
    let (ctxs, lens) = three_contexts(&mut mgr);
    let which: usize = kani::any();
    kani::assume(which < 3);
    let start: usize = kani::any();
    let end: usize = kani::any();
    kani::assume(start <= end && end <= lens[which]);
    let (min_off, _) = mgr.get_context_offsets(ctxs[which]);
    let start_off = min_off + start as u64;
    let needs_interning = (end - start) as u64 > (1u64 << 25) - 1 || start_off >= (1u64 << 38) - 1;
    kani::assume(needs_interning);
    let id = mgr.intern_span(ctxs[which], start, end);
    assert!(id.0.get() >> 63 == 1, "interned tag");
    let (c, s, e) = mgr.get_span(id);
    assert!(c == ctxs[which] && s == start && e == end, "interned span round-trips");
    kani::cover!(start_off >= (1u64 << 38) - 1 && end - start < 10, "short span at a huge offset");
    kani::cover!((end - start) as u64 > (1u64 << 25) - 1 && which == 0, "long span in the first context");
    let id2 = mgr.intern_span(ctxs[which], start, end);
    assert!(id2 == id, "same span, same id");
    core::mem::forget(mgr);
}

// @harness id=c16_surrounding_span props=C16,C15,C01 tier=quick cap=600
// @desc SpanManager::make_surrounding_span of two inline spans of the same context with start(a) <= end(b) yields exactly (context, start(a), end(b)) and does not panic
// @bound 3 contexts of lengths <= 2^25 (so that every span is inline); all span pairs
// @funcs SpanManager::make_surrounding_span
#[kani::proof]
#[kani::unwind(4)]
#[kani::stub(foldhash::seed::gen_per_hasher_seed, ks::stub_gen_per_hasher_seed)]
#[kani::stub(foldhash::seed::global::GlobalSeed::init_slow, ks::stub_init_slow)]
fn c16_surrounding_span() {
    let mut mgr = SpanManager::new();
    let (ctxs, lens) = three_contexts(&mut mgr);
    kani::assume(lens[0] < (1 << 25) && lens[1] < (1 << 25) && lens[2] < (1 << 25));
    let which: usize = kani::any();
    kani::assume(which < 3);
    let (s1, e1, s2, e2): (usize, usize, usize, usize) = kani::any();
    kani::assume(s1 <= e1 && e1 <= lens[which]);
    kani::assume(s2 <= e2 && e2 <= lens[which]);
    kani::assume(s1 <= e2);
    let a = mgr.intern_span(ctxs[which], s1, e1);
    let b = mgr.intern_span(ctxs[which], s2, e2);
    let sur = mgr.make_surrounding_span(a, b);
    let (c, s, e) = mgr.get_span(sur);
    assert!(c == ctxs[which] && s == s1 && e == e2, "surrounding span = (start of first, end of second)");
    kani::cover!(s2 < s1 && e2 > e1, "second span encloses the first");
    kani::cover!(which == 2, "last context");
}

// @harness id=c16_span_must_fail props=C16 tier=quick cap=600 expect=fail
// @desc vacuity twin for the span-manager harnesses
#[kani::proof]
#[kani::unwind(4)]
#[kani::stub(foldhash::seed::gen_per_hasher_seed, ks::stub_gen_per_hasher_seed)]
#[kani::stub(foldhash::seed::global::GlobalSeed::init_slow, ks::stub_init_slow)]
fn c16_span_must_fail() {
    let mut mgr = SpanManager::new();
    let (ctxs, lens) = three_contexts(&mut mgr);
    let start: usize = kani::any();
    let end: usize = kani::any();
    kani::assume(start <= end && end <= lens[1] && end - start < 100);
    kani::assume(lens[0] < (1 << 30) && lens[1] < (1 << 30)); // inline encoding only (the interned path is in c16_span_roundtrip_interned)
    let id = mgr.intern_span(ctxs[1], start, end);
    let _ = mgr.get_span(id);
    assert!(false, "reachability witness");
}
