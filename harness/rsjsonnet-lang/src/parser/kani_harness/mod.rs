//! Kani harnesses for the parser (C15): operator precedence / associativity,
//! unary operators and node spans, on token vectors built directly (no lexer)
//! whose operator tokens are symbolic.
use super::*;
use crate::kani_support as ks;

/// The 19 binary operator tokens with their precedence level (higher binds tighter) as given by the
/// Jsonnet specification's table, and the AST operator they denote.
fn binop(i: u8) -> (STokenKind, u8, ast::BinaryOp) {
    match i {
        0 => (STokenKind::PipePipe, 1, ast::BinaryOp::LogicOr),
        1 => (STokenKind::AmpAmp, 2, ast::BinaryOp::LogicAnd),
        2 => (STokenKind::Pipe, 3, ast::BinaryOp::BitwiseOr),
        3 => (STokenKind::Hat, 4, ast::BinaryOp::BitwiseXor),
        4 => (STokenKind::Amp, 5, ast::BinaryOp::BitwiseAnd),
        5 => (STokenKind::EqEq, 6, ast::BinaryOp::Eq),
        6 => (STokenKind::ExclamEq, 6, ast::BinaryOp::Ne),
        7 => (STokenKind::Lt, 7, ast::BinaryOp::Lt),
        8 => (STokenKind::LtEq, 7, ast::BinaryOp::Le),
        9 => (STokenKind::Gt, 7, ast::BinaryOp::Gt),
        10 => (STokenKind::GtEq, 7, ast::BinaryOp::Ge),
        11 => (STokenKind::In, 7, ast::BinaryOp::In),
        12 => (STokenKind::LtLt, 8, ast::BinaryOp::Shl),
        13 => (STokenKind::GtGt, 8, ast::BinaryOp::Shr),
        14 => (STokenKind::Plus, 9, ast::BinaryOp::Add),
        15 => (STokenKind::Minus, 9, ast::BinaryOp::Sub),
        16 => (STokenKind::Asterisk, 10, ast::BinaryOp::Mul),
        17 => (STokenKind::Slash, 10, ast::BinaryOp::Div),
        _ => (STokenKind::Percent, 10, ast::BinaryOp::Rem),
    }
}

fn is_ident<'p>(e: &ast::Expr<'p, '_>, name: crate::interner::InternedStr<'p>) -> bool {
    matches!(e.kind, ast::ExprKind::Ident(id) if id.value == name)
}

macro_rules! parser_stubs {
    ($item:item) => {
        #[kani::stub(foldhash::seed::gen_per_hasher_seed, ks::stub_gen_per_hasher_seed)]
        #[kani::stub(foldhash::seed::global::GlobalSeed::init_slow, ks::stub_init_slow)]
        #[kani::stub(crate::arena::Arena::alloc, crate::arena::Arena::kstub_alloc)]
        #[kani::stub(crate::arena::Arena::alloc_slice, crate::arena::Arena::kstub_alloc_slice)]
        #[kani::stub(crate::arena::Arena::alloc_str, crate::arena::Arena::kstub_alloc_str)]
        #[kani::stub(alloc::fmt::format, ks::stub_fmt_format)]
        #[kani::stub(core::fmt::write, ks::stub_fmt_write_nothing)]
        $item
    };
}

// @harness id=c15_precedence_two_ops props=C15 tier=attempt cap=1800
// @desc Parser::parse_root_expr on the token vector `a op1 b op2 c` for every pair of the 19 binary operator tokens: the tree is Binary(Binary(a,op1,b),op2,c) when prec(op1) >= prec(op2) (left associativity within a level) and Binary(a,op1,Binary(b,op2,c)) otherwise, with the operators mapped to the right AST operator; every node's span runs from its first to its last token and children lie inside their parent
// @bound 5 tokens + end of file, 19 x 19 operator pairs in one query
// @funcs Parser::parse_root_expr, Parser::parse_expr, Parser::parse_suffix_expr, Parser::parse_maybe_simple_expr, SpanManager::make_surrounding_span
parser_stubs! {
#[kani::proof]
#[kani::unwind(14)]
fn c15_precedence_two_ops() {
    let arena = Arena::new();
    let ast_arena = Arena::new();
    let interner = StrInterner::new();
    let mut span_mgr = SpanManager::new();
    let (ctx, _) = span_mgr.insert_source_context(5);
    let (a, b, c) = (interner.intern(&arena, "a"), interner.intern(&arena, "b"), interner.intern(&arena, "c"));
    let i1: u8 = kani::any();
    let i2: u8 = kani::any();
    kani::assume(i1 < 19 && i2 < 19);
    let (t1, p1, o1) = binop(i1);
    let (t2, p2, o2) = binop(i2);
    let sp: [SpanId; 6] = core::array::from_fn(|k| span_mgr.intern_span(ctx, if k < 5 { k } else { 5 }, if k < 5 { k + 1 } else { 5 }));
    let tokens = vec![
        Token { span: sp[0], kind: TokenKind::Ident(a) },
        Token { span: sp[1], kind: TokenKind::Simple(t1) },
        Token { span: sp[2], kind: TokenKind::Ident(b) },
        Token { span: sp[3], kind: TokenKind::Simple(t2) },
        Token { span: sp[4], kind: TokenKind::Ident(c) },
        Token { span: sp[5], kind: TokenKind::EndOfFile },
    ];
    let parser = Parser::new(&arena, &ast_arena, &interner, &mut span_mgr, tokens);
    let res = parser.parse_root_expr();
    match &res {
        Ok(root) => {
            let ast::ExprKind::Binary(l, op, r) = root.kind else { panic!("root must be a binary node") };
            let (_, rs, re) = span_mgr.get_span(root.span);
            assert!(rs == 0 && re == 5, "root spans the whole input");
            if p1 >= p2 {
                assert!(op == o2, "the second operator is applied last");
                assert!(is_ident(r, c), "right operand is c");
                let ast::ExprKind::Binary(ll, lop, lr) = l.kind else { panic!("left operand must be (a op1 b)") };
                assert!(lop == o1 && is_ident(ll, a) && is_ident(lr, b), "inner node is a op1 b");
                let (_, s, e) = span_mgr.get_span(l.span);
                assert!(s == 0 && e == 3, "inner span = first to last token of (a op1 b)");
                kani::cover!(p1 == p2 && i1 != i2, "two different operators of one level associate to the left");
            } else {
                assert!(op == o1, "the first operator is applied last");
                assert!(is_ident(l, a), "left operand is a");
                let ast::ExprKind::Binary(rl, rop, rr) = r.kind else { panic!("right operand must be (b op2 c)") };
                assert!(rop == o2 && is_ident(rl, b) && is_ident(rr, c), "inner node is b op2 c");
                let (_, s, e) = span_mgr.get_span(r.span);
                assert!(s == 2 && e == 5, "inner span = first to last token of (b op2 c)");
                kani::cover!(p1 == 1 && p2 == 10, "|| then *");
            }
        }
        Err(_) => assert!(false, "every operator pair parses"),
    }
    core::mem::forget(res);
}
}

// @harness id=c15_unary_binds_tighter props=C15 tier=attempt cap=1800
// @desc Parser::parse_root_expr on `u a op b` for every unary prefix operator u in {+,-,~,!} and every binary operator: the tree is Binary(Unary(u,a), op, b) - a unary operator binds tighter than any binary operator - with spans [0,2) for the unary node and [0,4) for the root
// @bound 4 tokens + end of file, 4 x 19 operator combinations
// @funcs Parser::parse_root_expr, Parser::parse_expr
parser_stubs! {
#[kani::proof]
#[kani::unwind(14)]
fn c15_unary_binds_tighter() {
    let arena = Arena::new();
    let ast_arena = Arena::new();
    let interner = StrInterner::new();
    let mut span_mgr = SpanManager::new();
    let (ctx, _) = span_mgr.insert_source_context(4);
    let (a, b) = (interner.intern(&arena, "a"), interner.intern(&arena, "b"));
    let u: u8 = kani::any();
    kani::assume(u < 4);
    let (ut, uo) = match u {
        0 => (STokenKind::Plus, ast::UnaryOp::Plus),
        1 => (STokenKind::Minus, ast::UnaryOp::Minus),
        2 => (STokenKind::Tilde, ast::UnaryOp::BitwiseNot),
        _ => (STokenKind::Exclam, ast::UnaryOp::LogicNot),
    };
    let i: u8 = kani::any();
    kani::assume(i < 19);
    let (t, _, o) = binop(i);
    let sp: [SpanId; 5] = core::array::from_fn(|k| span_mgr.intern_span(ctx, if k < 4 { k } else { 4 }, if k < 4 { k + 1 } else { 4 }));
    let tokens = vec![
        Token { span: sp[0], kind: TokenKind::Simple(ut) },
        Token { span: sp[1], kind: TokenKind::Ident(a) },
        Token { span: sp[2], kind: TokenKind::Simple(t) },
        Token { span: sp[3], kind: TokenKind::Ident(b) },
        Token { span: sp[4], kind: TokenKind::EndOfFile },
    ];
    let parser = Parser::new(&arena, &ast_arena, &interner, &mut span_mgr, tokens);
    let res = parser.parse_root_expr();
    match &res {
        Ok(root) => {
            let ast::ExprKind::Binary(l, op, r) = root.kind else { panic!("root must be a binary node") };
            assert!(op == o && is_ident(r, b), "binary operator applied last");
            let ast::ExprKind::Unary(uop, inner) = l.kind else { panic!("left operand must be the unary node") };
            assert!(uop == uo && is_ident(inner, a), "unary operator applies to a only");
            let (_, s, e) = span_mgr.get_span(l.span);
            assert!(s == 0 && e == 2, "unary node spans operator and operand");
            let (_, rs, re) = span_mgr.get_span(root.span);
            assert!(rs == 0 && re == 4, "root spans the whole input");
            kani::cover!(u == 1 && i == 16, "-a * b");
        }
        Err(_) => assert!(false, "parses"),
    }
    core::mem::forget(res);
}
}

// @harness id=c15_must_fail props=C15 tier=attempt cap=1800 expect=fail
// @desc vacuity twin of the parser harnesses
parser_stubs! {
#[kani::proof]
#[kani::unwind(14)]
fn c15_must_fail() {
    let arena = Arena::new();
    let ast_arena = Arena::new();
    let interner = StrInterner::new();
    let mut span_mgr = SpanManager::new();
    let (ctx, _) = span_mgr.insert_source_context(1);
    let a = interner.intern(&arena, "a");
    let s0 = span_mgr.intern_span(ctx, 0, 1);
    let s1 = span_mgr.intern_span(ctx, 1, 1);
    let tokens = vec![Token { span: s0, kind: TokenKind::Ident(a) }, Token { span: s1, kind: TokenKind::EndOfFile }];
    let parser = Parser::new(&arena, &ast_arena, &interner, &mut span_mgr, tokens);
    let res = parser.parse_root_expr();
    core::mem::forget(res);
    assert!(false, "reachability witness");
}
}
