//! Kani harnesses for the collector (C03). See also `unmanaged.inject.rs`,
//! which the overlay appends to `gc/mod.rs`.
use super::*;
