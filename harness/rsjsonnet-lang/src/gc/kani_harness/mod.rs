//! Kani harnesses for the collector (C03). See also `unmanaged.inject.rs`,
//! which the overlay appends to `gc/mod.rs`.
use super::*;

// ---------------------------------------------------------------------------------------------------
// C03-H1: exactness of the real collector on a symbolic two-node heap (second attempt, with the larger
// field-sensitivity limit of build phase 2)
// ---------------------------------------------------------------------------------------------------

/// A heap node with two optional outgoing edges.
struct Node {
    edges: RefCell<[Option<Gc<Node>>; 2]>,
}

impl GcTrace for Node {
    fn trace<'a>(&self, ctx: &mut impl GcTraceCtx<'a>)
    where
        Self: 'a,
    {
        let e = self.edges.borrow();
        if let Some(x) = &e[0] {
            ctx.visit_obj(x);
        }
        if let Some(x) = &e[1] {
            ctx.visit_obj(x);
        }
    }
}

// @harness id=c03_gc_two_nodes props=C03 tier=attempt cap=2700 mem=40
// @desc the REAL GcContext (alloc_view, gc, num_objects) on a heap of two nodes with ANY of the four possible edges (self loops and the 2-cycle included) and ANY choice of which nodes are still held by the program (a GcView = root): after gc() exactly the nodes reachable from a held node survive (unreachable cycles are reclaimed, nothing reachable is), the held nodes are still usable, and a second gc() changes nothing
// @bound 2 nodes, 4 symbolic edges, 2 symbolic roots
// @funcs GcContext::alloc_view, GcContext::gc, GcContext::num_objects, Gc::view, GcCountCtx::visit_obj, GcMarkCtx::visit_obj
#[kani::proof]
#[kani::unwind(5)]
fn c03_gc_two_nodes() {
    let ctx = GcContext::new();
    let n0 = ctx.alloc_view(Node { edges: RefCell::new([None, None]) });
    let n1 = ctx.alloc_view(Node { edges: RefCell::new([None, None]) });
    let e00: bool = kani::any();
    let e01: bool = kani::any();
    let e10: bool = kani::any();
    let e11: bool = kani::any();
    if e00 {
        n0.edges.borrow_mut()[0] = Some(Gc::from(&n0));
    }
    if e01 {
        n0.edges.borrow_mut()[1] = Some(Gc::from(&n1));
    }
    if e10 {
        n1.edges.borrow_mut()[0] = Some(Gc::from(&n0));
    }
    if e11 {
        n1.edges.borrow_mut()[1] = Some(Gc::from(&n1));
    }
    let keep0: bool = kani::any();
    let keep1: bool = kani::any();
    // weak handles to observe survival without keeping the nodes alive
    let w0 = Gc::from(&n0);
    let w1 = Gc::from(&n1);
    if !keep0 {
        drop(n0);
    } else {
        core::mem::forget(n0);
    }
    if !keep1 {
        drop(n1);
    } else {
        core::mem::forget(n1);
    }
    ctx.gc();
    let live0 = keep0 || (keep1 && e10);
    let live1 = keep1 || (keep0 && e01);
    let expect = live0 as usize + live1 as usize;
    assert!(ctx.num_objects() == expect, "exactly the reachable nodes survive");
    assert!(w0.inner.upgrade().is_some() == live0, "node 0 survives iff reachable");
    assert!(w1.inner.upgrade().is_some() == live1, "node 1 survives iff reachable");
    ctx.gc();
    assert!(ctx.num_objects() == expect, "a second collection changes nothing");
    kani::cover!(!keep0 && !keep1 && e01 && e10, "unreachable 2-cycle reclaimed");
    kani::cover!(keep0 && e01 && !keep1, "node reachable only through an edge survives");
    core::mem::forget((w0, w1));
    core::mem::forget(ctx);
}
