#[cfg(kani)]
impl<T: GcTrace> GcView<T> {
    /// Verification-only constructor: an object that is NOT registered in any
    /// `GcContext` (so no `Vec<Rc<dyn ..>>` traffic). Used to build *argument*
    /// values for harnesses of code that does not depend on registration.
    pub(crate) fn kani_unmanaged(value: T) -> Self {
        GcView {
            inner: Rc::new(GcBox {
                visits: Cell::new(0),
                mark: Cell::new(false),
                value,
            }),
        }
    }

    pub(crate) fn kani_visits(&self) -> usize {
        self.inner.visits.get()
    }

    pub(crate) fn kani_same(&self, other: &Self) -> bool {
        Rc::ptr_eq(&self.inner, &other.inner)
    }
}

#[cfg(kani)]
impl<T: GcTrace> Gc<T> {
    pub(crate) fn kani_points_to(&self, view: &GcView<T>) -> bool {
        core::ptr::eq(self.inner.as_ptr(), Rc::as_ptr(&view.inner))
    }
}
