#[cfg(kani)]
/// Verification-only: runs the collector's real COUNT pass (`GcCountCtx`) over one value, exactly as
/// `GcContext::gc` does for every heap object that is only weakly referenced.
pub(crate) fn kani_trace_count<T: GcTrace>(value: &T) {
    value.trace(&mut GcCountCtx);
}

#[cfg(kani)]
/// Verification-only: runs the collector's real MARK pass over one value and reports how many objects were queued.
pub(crate) fn kani_trace_mark_queue_len<'a, T: GcTrace + 'a>(value: &T) -> usize {
    let mut ctx = GcMarkCtx { queue: Vec::new() };
    value.trace(&mut ctx);
    let n = ctx.queue.len();
    core::mem::forget(ctx);
    n
}

#[cfg(kani)]
impl<T: GcTrace> GcView<T> {
    pub(crate) fn kani_marked(&self) -> bool {
        self.inner.mark.get()
    }
}
